"""The per-property checks.  Each check: (1) theorem step -- the property's theorem file is
rebuilt against the regenerated tables/grammar and its assumptions are audited; (2) the
correspondence checks the theorems depend on; (3) the property-level search on the real
code; (4) verdict and evidence."""
import hashlib
import json
import pickle
import os
import random
import re
import struct
import sys
import time

import xv
from xv import TieBroken, log

ALLOWED_AXIOMS = set()      # every property theorem is closed under the global context
FORBIDDEN = re.compile(r'\b(Admitted|admit|Axiom|Axioms|Parameter|Parameters|Conjecture|Conjectures|'
                       r'Unset\s+Guard|bypass_check|type-in-type|impredicative-set|Admit\s+Obligations|'
                       r'Unset\s+Positivity|Unset\s+Universe)\b')
SECTION_ONLY = re.compile(r'^\s*(Hypothesis|Hypotheses|Variable|Variables|Context)\b')


def outside_section_decls(txt):
    """Variable/Hypothesis declarations are axioms only outside a Section"""
    depth, hits = 0, []
    for line in txt.split("\n"):
        if re.match(r"^\s*(Section|Module)\s+[\w']+\s*\.", line):
            depth += 1
        elif re.match(r"^\s*End\s+[\w']+\s*\.", line):
            depth = max(0, depth - 1)
        elif depth == 0 and SECTION_ONLY.match(line):
            hits.append(line.strip()[:60])
    return hits


RUST_WORDS = ["as", "async", "await", "break", "const", "continue", "crate", "dyn", "else", "enum", "extern", "false", "fn",
              "for", "if", "impl", "in", "let", "loop", "match", "mod", "move", "mut", "pub", "ref", "return", "Self", "self",
              "static", "struct", "super", "trait", "true", "type", "union", "unsafe", "use", "where", "while", "abstract",
              "become", "box", "do", "final", "macro", "override", "priv", "try", "typeof", "unsized", "virtual", "yield",
              "gen", "raw", "safe", "macro_rules", "TRUE", "FALSE", "True", "default", "void", "bool", "string", "opaque"]


def probe_texts():
    """one tiny specification per (candidate spelling, position).  Candidates: every identifier-
    or spelling-like string literal anywhere in /repo/src, the Rust keyword dictionary, every
    string of the Tables.v in use.  Whatever table the emitters consult, in whatever syntactic
    form it is kept, its entries are among the candidates."""
    cands = set(RUST_WORDS)
    for f in xv.src_files():
        if f.endswith(".rs"):
            cands.update(re.findall(r'"([A-Za-z_][A-Za-z0-9_]*(?: [A-Za-z_][A-Za-z0-9_]*)?)"', open(f).read()))
    tv = os.path.join(xv.COQ, "theories/Model/Tables.v")
    if os.path.exists(tv):
        cands.update(re.findall(r'"([A-Za-z_][A-Za-z0-9_]*(?: [A-Za-z_][A-Za-z0-9_]*)?)"', open(tv).read()))
    texts = []
    for c in sorted(cands):
        if len(c) > 40:
            continue
        if " " not in c:
            texts += ["struct probe_s { hyper %s; };" % c,
                      "typedef hyper %s;" % c,
                      "union probe_l switch (int k) { case %s: void; case 2: int %s; };" % (c, c),
                      "enum probe_e { %s = 1 };" % c,
                      "const %s = 3; struct probe_c { int a[%s]; };" % (c, c)]
        texts += ["struct probe_t { %s x; %s y<>; };" % (c, c),
                  "union probe_u switch (%s k) { case 1: void; };" % c]
    return texts


def tables_fallback():
    key = hashlib.sha256((xv.src_hash() + open(os.path.join(xv.COQ, "theories/Model/Tables.v")).read()).encode()).hexdigest()[:16]
    path = os.path.join(xv.WORK, "cache", "tables_probe_%s.pkl" % key)
    if os.path.exists(path):
        return pickle.load(open(path, "rb"))
    texts = probe_texts()
    obs = xv.run_front(texts, "tables_probe")
    n1, d1 = xv.k1(obs, "tables_probe")
    n2, d2, bad = xv.k2(obs, "tables_probe")
    detail = ""
    if d1:
        detail = "K1 code %d on: %s" % (d1[0][1], obs[d1[0][0]]["text"])
    elif d2:
        detail = "K2 code %d on: %s" % (d2[0][2], obs[d2[0][0]]["text"])
    elif bad:
        detail = "header differs"
    res = (not d1 and not d2 and not bad, n1, n2, detail)
    os.makedirs(os.path.dirname(path), exist_ok=True)
    pickle.dump(res, open(path, "wb"))
    return res


class Run:
    def __init__(self, pid, tier, seed):
        self.pid, self.tier, self.seed = pid, tier, seed
        self.t0 = time.time()
        self.rng = random.Random(seed * 1000003 + int(pid[1:]))
        self.obligations = []     # (name, ok, detail)
        self.broken = []          # names of theorems / ties that no longer check
        self.violations = []      # (replay path, no_failing_input)
        self.known_hits = {}      # finding id -> description
        self.samples = []
        self.evaluations = 0
        self.distinct = set()
        self.cov = {}
        self.theorems = []
        self.assumptions = []
        self.replay_n = 0
        self.known = load_known()

    # ----- obligations -----
    def oblige(self, name, ok, detail=""):
        self.obligations.append((name, bool(ok), detail))
        if not ok:
            self.broken.append((name, detail))
            log("BROKEN %s: %s" % (name, detail[:2000]))

    def count(self, key, n=1):
        self.cov[key] = self.cov.get(key, 0) + n

    def case(self, sig, sample=None):
        """account for one explored case; sig identifies it for distinctness"""
        self.evaluations += 1
        self.distinct.add(sig)
        if sample is not None and len(self.samples) < 12:
            self.samples.append(sample)

    # ----- theorem step -----
    def theorem_step(self, props):
        """rebuild the development against the regenerated data files; compile the property's
        theorem file(s) and audit Print Assumptions; grep for forbidden vernacular."""
        try:
            r = xv.coq_make()
        except TieBroken as e:
            self.oblige("translators", False, str(e))
            return
        built = r.returncode == 0
        errs = list(xv.TRANSLATOR_ERRORS)
        if errs and built and all(e.startswith("gen_tables") for e in errs):
            # the table translator reads source *shapes*; when a shape has changed the tables in
            # use (last generated) are validated against the real generator instead
            try:
                ok, n1, n2, detail = tables_fallback()
            except TieBroken as e:
                ok, n1, n2, detail = False, 0, 0, str(e)
            self.cov["tables_translator"] = "could not read the source (%s); fell back to the behavioural tie" % "; ".join(errs)
            self.oblige("Tables.v is current: translator failed on a changed source shape, the tables in use agree with the real "
                        "generator on every candidate spelling (K1 on %d, K2 on %d probe specifications)" % (n1, n2), ok,
                        "; ".join(errs) + " -- " + detail)
        else:
            self.oblige("translators regenerate Tables.v and Grammar.v from the current source", not errs, "; ".join(errs))
        if not built:
            # which file failed?
            m = re.findall(r'File "\./(theories/[^"]+)", line (\d+)', r.stdout)
            self.cov["coq_build_failure"] = r.stdout[-1500:]
        for prop in props:
            vfile = os.path.join(xv.COQ, "theories/Props/%s.v" % prop)
            if not os.path.exists(vfile):
                self.oblige("theorem file Props/%s.v exists" % prop, False, "missing")
                continue
            src = open(vfile).read()
            names = re.findall(r'^\s*(?:Theorem|Corollary)\s+(\w+)', src, re.M)
            n_print = len(re.findall(r'^\s*Print Assumptions', src, re.M))
            os.makedirs(os.path.join(xv.WORK, "cases", "audit"), exist_ok=True)
            out = xv.sh(["coqc", "-noglob"] + xv.COQ_ARGS + ["-o", os.path.join(xv.WORK, "cases", "audit", prop + ".vo"), vfile],
                        cwd=xv.COQ, timeout=1800)
            if out.returncode != 0:
                m = re.search(r'line (\d+)', out.stdout)
                failing = "?"
                if m:
                    ln = int(m.group(1))
                    before = src.split("\n")[:ln]
                    for l in reversed(before):
                        mm = re.match(r'\s*(?:Theorem|Lemma|Corollary|Example)\s+(\w+)', l)
                        if mm:
                            failing = mm.group(1)
                            break
                for nm in names:
                    self.oblige("theorem " + nm, False if nm == failing or failing == "?" else True,
                                "does not check: " + out.stdout[-1200:] if nm == failing or failing == "?" else "")
                if failing not in names:
                    self.oblige("theorem file %s (%s)" % (prop, failing), False, out.stdout[-1200:])
                continue
            closed = len(re.findall(r'Closed under the global context', out.stdout))
            axioms = re.findall(r'^\s*([\w.]+)\s*:', "\n".join(
                blk for blk in re.findall(r'Axioms:\n((?:.+\n?)*?)(?=\n\S|\Z)', out.stdout)), re.M)
            bad_ax = [a for a in axioms if a not in ALLOWED_AXIOMS]
            for nm in names:
                self.oblige("theorem " + nm, True)
                self.theorems.append(nm)
            self.oblige("assumptions of %s (%d theorems, %d closed)" % (prop, n_print, closed),
                        closed == n_print and not bad_ax and n_print >= len(names),
                        "axioms: %s" % bad_ax)
        # forbidden vernacular anywhere in the development
        hits = []
        for root, _, files in os.walk(os.path.join(xv.COQ, "theories")):
            for f in files:
                if f.endswith(".v"):
                    txt = open(os.path.join(root, f)).read()
                    txt = re.sub(r'\(\*.*?\*\)', '', txt, flags=re.S)
                    for m in FORBIDDEN.finditer(txt):
                        hits.append("%s: %s" % (f, m.group(0)))
                    for h in outside_section_decls(txt):
                        hits.append("%s: %s (outside a section)" % (f, h))
        self.oblige("no Admitted/Axiom/Parameter/guard switches in the development", not hits, "; ".join(hits[:10]))
        # a file that does not build only concerns the properties whose theorems depend on it
        self.cov["full_build_of_the_development"] = built
        for prop in props:
            ok = built or xv.coq_up_to_date("theories/Props/%s.vo" % prop)
            self.oblige("full .vo build of Props/%s.v and of everything it depends on" % prop, ok,
                        self.cov.get("coq_build_failure", ""))

    # ----- verdicts -----
    def replay_path(self):
        d = os.path.join(xv.VERIF, "replays")
        os.makedirs(d, exist_ok=True)
        self.replay_n += 1
        return os.path.join(d, "%s_%s_%d.json" % (self.pid, self.tier, self.replay_n))

    def violation(self, what, data, no_input=False):
        if len(self.violations) >= 5:
            return
        p = self.replay_path()
        data = dict(data)
        data.update({"property": self.pid, "what": what,
                     "rerun": "./verify %s --replay %s" % (self.pid, p)})
        with open(p, "w") as f:
            json.dump(data, f, indent=1)
        self.violations.append((p, no_input, what))

    def known_hit(self, fid, what):
        self.known_hits[fid] = what

    def finish(self):
        # a broken proof/tie with no concrete failing input is still a violation
        if self.broken and not self.violations:
            self.violation("proof or correspondence no longer checks: " +
                           "; ".join(n for n, _ in self.broken[:6]),
                           {"broken": [{"name": n, "detail": d[:3000]} for n, d in self.broken[:10]]},
                           no_input=True)
        for fid, what in sorted(self.known_hits.items()):
            print("KNOWN-FINDING: property=%s %s" % (self.pid, what))
        for p, no_input, what in self.violations:
            print("VIOLATION property=%s replay=%s%s" % (self.pid, p, " no-failing-input-found" if no_input else ""))
            log("  " + what[:500])
        n_ob = len(self.obligations)
        n_ok = sum(1 for _, ok, _ in self.obligations if ok)
        cov = {
            "obligations": n_ob,
            "discharged": n_ok,
            "checker_cmd": "cd /verif/coq && coq_makefile -f _CoqProject -o Makefile && make -j16  "
                           "(then coqc on theories/Props/%s.v for Print Assumptions; correspondence: "
                           "coqc -noglob on generated work/cases/*.v, vm_compute)" % self.pid,
            "trusted_base": TRUSTED_BASE,
            "evaluations": max(1, self.evaluations),
            "distinct_nontrivial": len(self.distinct),
            "rule": RULES.get(self.pid, ""),
            "samples": self.samples[:12] or ["(none)"],
            "theorems": self.theorems,
            "obligation_list": [{"name": n, "ok": ok} for n, ok, _ in self.obligations],
            "known_findings_reproduced": sorted(self.known_hits),
        }
        cov.update(self.cov)
        ev = {
            "property_id": self.pid, "tier": self.tier, "seed": self.seed, "level": "proof",
            "coverage": cov, "assumptions": self.assumptions or ASSUMPTIONS.get(self.pid, []),
            "wall_s": round(time.time() - self.t0, 1), "violations": len(self.violations),
        }
        os.makedirs(os.path.join(xv.VERIF, "evidence"), exist_ok=True)
        with open(os.path.join(xv.VERIF, "evidence", self.pid + ".json"), "w") as f:
            json.dump(ev, f, indent=1)
        return 1 if self.violations else 0


TRUSTED_BASE = [
    "Coq 8.16.1 kernel (coqc), including vm_compute (used in reflection proofs and in every correspondence evaluation); native_compute is not used",
    "axioms: none -- every theorem in theories/Props is 'Closed under the global context' (audited on every run); coqchk -o over all property files: Axioms <none> (run by hand)",
    "translators tools/gen_tables.py (keyword/spelling/template tables; when it cannot read a changed source shape, the tables in use are validated against the real generator on every candidate spelling instead) and tools/gen_grammar.py (xdr.pest -> Grammar.v)",
    "the Python mirror of Spec.v in tools/valgen.py (typing, enc, expected values) used by the generators, cross-checked against Spec.v on every generated value (K4)",
    "harness dumpers (harness/front, harness/runner) that print real ASTs, generated text and run-time observations, and tools/coqterm.py that prints them as Coq terms",
    "hand-written model of header.rs (Runtime.v), of the emitters (Emit.v, Render.v), of the semantics of the emitted Rust fragment (Sem.v), of the walker/indexes and of pest: tied to /repo by the correspondence checks K1/K2/K3, which are sampling",
    "the text-level theorems (TextProofs.v, TextTie.v, Derive.v, FrontAll.v) are about the model's PEG interpreter (Peg.v) run on Grammar.v as regenerated from /repo/src/xdr.pest on this run; that pest itself parses like Peg.v is the sampled tie K1",
    "rustc/cargo, the bytes crate and the OS for what the harness observes; the harness's watchdog (20 s per specification) and restart-after-signal logic",
]
RULES = {}
ASSUMPTIONS = {}


def load_known():
    p = os.path.join(xv.VERIF, "known_findings.json")
    if os.path.exists(p):
        return json.load(open(p))
    return {"findings": [], "fixed": []}


# =======================================================================================
# C10 -- runtime readers and size helpers

RULES["C10"] = ("exhaustive grid: every reader x payload length n in 0..=N x remaining r in 0..=N+8 x "
                "max in {None, 0..=N+1}; boolean reader on boundary words and a seeded sample of u32; "
                "blanket WireSize impls on std containers of 0..=N elements; a case is distinct by "
                "(reader, n, r, max) and non-trivial when r>0 or it is a size query")
ASSUMPTIONS["C10"] = ["Runtime.v is a hand model of header.rs, tied by K3 on the grid",
                      "usize is 64 bits"]


def pat(r, salt=1):
    return bytes(((i * 37 + salt) % 251) + 1 for i in range(r))


def oracle_c10(kind, hexin):
    """the contract of C10, written independently of the model: expected line"""
    b = bytes.fromhex(hexin)
    r = len(b)
    p = kind.split(":")

    def ru4(n):
        return (n + 3) // 4 * 4

    def mx(s):
        return None if s == "-" else int(s)
    k = p[0]
    fixed = {"@u32": (4, ">I", "u32"), "@i32": (4, ">i", "i32"), "@u64": (8, ">Q", "u64"),
             "@i64": (8, ">q", "i64"), "@f32": (4, ">I", "f32"), "@f64": (8, ">Q", "f64")}
    if k in fixed:
        sz, fmt, nm = fixed[k]
        if r < sz:
            return "RD ERR InvalidLength"
        return "RD OK %s:%d consumed=%d wsz=%d" % (nm, struct.unpack(fmt, b[:sz])[0], sz, sz)
    if k == "@bool":
        if r < 4:
            return "RD ERR InvalidLength"
        w = struct.unpack(">I", b[:4])[0]
        if w > 1:
            return "RD ERR InvalidBoolean"
        return "RD OK bool:%d consumed=4 wsz=4" % w
    if k == "@bytes":
        n = int(p[1])
        if r < ru4(n):
            return "RD ERR InvalidLength"
        return "RD OK bytes@%s:%s consumed=%d wsz=%d" % ("E" if n == 0 else "0", b[:n].hex(), ru4(n), n)
    if k in ("@varbytes", "@string"):
        m = mx(p[1])
        if r < 4:
            return "RD ERR InvalidLength"
        n = struct.unpack(">I", b[:4])[0]
        if (m is not None and n > m) or r - 4 < ru4(n):
            return "RD ERR InvalidLength"
        d = b[4:4 + n]
        if k == "@varbytes":
            return "RD OK bytes@%s:%s consumed=%d wsz=%d" % ("E" if n == 0 else "4", d.hex(), 4 + ru4(n), n)
        try:
            d.decode("utf-8")
        except UnicodeDecodeError:
            return "RD ERR NonUtf8String"
        return "RD OK str:%s consumed=%d wsz=%d" % (d.hex(), 4 + ru4(n), 4 + ru4(n))
    if k == "@vararray" and p[1] == "rt_elem":
        m = mx(p[2])
        if r < 4:
            return "RD ERR InvalidLength"
        n = struct.unpack(">I", b[:4])[0]
        if (m is not None and n > m) or r - 4 < 4 * n:
            return "RD ERR InvalidLength"
        vals = ["S:rt_elem{u32:%d}" % struct.unpack(">I", b[4 + 4 * i:8 + 4 * i])[0] for i in range(n)]
        return "RD OK vec[%s] consumed=%d wsz=%d" % (",".join(vals), 4 + 4 * n, 4 + 4 * n)
    if k == "@wsz":
        n = int(p[2])
        t = {"u32": 4, "i32": 4, "f32": 4, "bool": 4, "u64": 8, "i64": 8, "f64": 8,
             "vec_u32": 4 + 4 * n, "vec_u64": 4 + 8 * n, "slice_u32": 4 * n, "slice_u8": ru4(n),
             "opt_none": 4, "opt_some_u64": 12, "box_u32": 4, "string": 4 + ru4(n), "bytes": n,
             "vec_string": 4 + 4 + ru4(n) + 4 + ru4(n + 1),
             "slice_string": 12 + ru4(n) + ru4(n + 1) + ru4(n + 5), "arr_string": 8 + ru4(n + 2) + ru4(n),
             "arr_opt": 12 + 4 + 12, "vec_vec": 4 + (4 + 4 * n) + (4 + 4 * (n + 1)),
             "slice_vec": (4 + 8 * (n + 1)) + (4 + 8 * n)}
        return "W %d" % t[p[1]]
    return None


def c10_cases(run, N):
    cases = []
    for rdr in ["@u32", "@u64", "@i32", "@i64", "@f32", "@f64", "@bool"]:
        for r in range(0, 13):
            for salt in (1, 130):
                cases.append((rdr, r % 3, pat(r, salt).hex()))
    words = [0, 1, 2, 3, 255, 256, 0x7fffffff, 0x80000000, 0xfffffffe, 0xffffffff, 0x01000000, 0x00010000]
    words += [run.rng.getrandbits(32) for _ in range(200 if run.tier == "quick" else 20000)]
    for w in words:
        cases.append(("@bool", 0, (struct.pack(">I", w) + b"\x09").hex()))
    for n in range(N + 1):
        for r in range(N + 9):
            cases.append(("@bytes:%d" % n, (n + r) % 4, pat(r).hex()))
            for m in ["-"] + [str(x) for x in range(N + 2)]:
                cases.append(("@varbytes:%s" % m, (n + r) % 4, (struct.pack(">I", n) + pat(r)).hex()))
                cases.append(("@string:%s" % m, 0, (struct.pack(">I", n) + bytes(65 + (i % 26) for i in range(r))).hex()))
    # non-UTF-8 payloads: every 1-2 byte sequence class and structured longer ones
    bad = [b"\x80", b"\xc0\x80", b"\xc2", b"\xe0\x80\x80", b"\xed\xa0\x80", b"\xf4\x90\x80\x80",
           b"\xf5\x80\x80\x80", b"\xff", b"a\xc3", b"\xc3\xa9", b"\xe2\x82\xac", b"\xf0\x9f\x98\x80",
           b"\xef\xbf\xbd", b"\xed\x9f\xbf", b"\xee\x80\x80", b"\xf0\x8f\xbf\xbf", b"\xf4\x8f\xbf\xbf"]
    if run.tier == "thorough":
        bad += [bytes([a, b]) for a in range(0x70, 0x100, 3) for b in range(0x70, 0x100, 5)]
    for d in bad:
        enc = struct.pack(">I", len(d)) + d + b"\0" * ((4 - len(d) % 4) % 4)
        cases.append(("@string:-", 0, enc.hex()))
    for n in range(0, 5):
        for r in range(0, 4 * n + 10):
            for m in ["-", "0", "2", "3", "4"]:
                for el in ["rt_elem", "rt_velem", "rt_oelem"]:
                    body = bytes(((i % 7 == 3) * (1 + i % 3)) for i in range(r))
                    cases.append(("@vararray:%s:%s" % (el, m), 0, (struct.pack(">I", n) + body).hex()))
    for w in [0xffffffff, 0x80000000, 0x10000, 0x7fffffff]:
        for el in ["rt_elem", "rt_velem", "rt_oelem"]:
            cases.append(("@vararray:%s:-" % el, 0, (struct.pack(">I", w) + pat(6)).hex()))
        cases.append(("@varbytes:-", 0, (struct.pack(">I", w) + pat(6)).hex()))
        cases.append(("@string:-", 0, (struct.pack(">I", w) + pat(6)).hex()))
    for k in ["u32", "i32", "f32", "bool", "u64", "i64", "f64", "vec_u32", "vec_u64", "slice_u32",
              "slice_u8", "opt_none", "opt_some_u64", "box_u32", "string", "bytes", "vec_string",
              "slice_string", "arr_string", "arr_opt", "vec_vec", "slice_vec"]:
        for n in range(0, N + 1):
            cases.append(("@wsz:%s:%d" % (k, n), 0, ""))
    return cases


def check_c10(run):
    run.theorem_step(["C10"])
    N = 8 if run.tier == "quick" else 24
    try:
        exe, _, _ = xv.build_runner([], "c10")
        rt = xv.run_front([xv.RT_SPEC], "c10_rtast")[0]
    except TieBroken as e:
        run.oblige("K3 harness builds against /repo", False, str(e))
        return
    cases = c10_cases(run, N)
    lines = xv.run_runner(exe, ["0 %s %d %s" % c for c in cases])
    n, dis = xv.k3([(rt["ast"], [(k, o, h, l) for (k, o, h), l in zip(cases, lines)])], "c10")
    run.oblige("K3 reader grid: model agrees with header.rs on %d calls" % n, not dis,
               "; ".join("%s off=%d %s -> %s" % (cases[ci][0], cases[ci][1], cases[ci][2], lines[ci]) for _, ci in dis[:5]))
    run.cov["k3_cases"] = n
    run.cov["k3_disagreements"] = len(dis)
    run.cov["grid_N"] = N
    run.cov["exhaustive"] = True
    # property-level search: the contract itself, on every grid case
    kinds = {}
    for (k, o, h), l in zip(cases, lines):
        base = k.split(":")[0]
        kinds[base] = kinds.get(base, 0) + 1
        run.case((k, len(h) // 2), {"call": k, "offset": o, "input": h[:64], "observed": xv.strip_alloc(l)}
                 if len(run.samples) < 10 and (len(h) > 8) else None)
        if l.startswith("ABORT") or " PANIC " in " " + l:
            run.violation("reader %s panics/aborts: %s" % (k, l), {"call": k, "offset": o, "input": h, "observed": l})
            continue
        exp = oracle_c10(k, h)
        if exp is None:
            continue
        if o and "bytes@" in exp and "bytes@E" not in exp:
            exp = re.sub(r'bytes@(\d+)', lambda m: "bytes@%d" % (int(m.group(1)) + o), exp)
        if xv.strip_alloc(l) != exp:
            run.violation("reader %s breaks its contract: expected '%s', observed '%s'" % (k, exp, xv.strip_alloc(l)),
                          {"call": k, "offset": o, "input": h, "expected": exp, "observed": xv.strip_alloc(l)})
    run.cov["calls_by_reader"] = kinds
    utf8_tie(run, exe)


def utf8_tie(run, exe):
    """Utf8.utf8_valid (the model of String::from_utf8's verdict) against the real read_string on
    EVERY 1- and 2-byte string and on the boundary classes of the 3- and 4-byte forms"""
    cands = [bytes([a]) for a in range(256)] + [bytes([a, b]) for a in range(256) for b in range(256)]
    long_ = []
    for a in (0xE0, 0xE1, 0xEC, 0xED, 0xEE, 0xEF):
        for b in (0x7F, 0x80, 0x9F, 0xA0, 0xBF, 0xC0):
            for c in (0x7F, 0x80, 0xBF, 0xC0):
                long_.append(bytes([a, b, c]))
    for a in (0xF0, 0xF1, 0xF3, 0xF4, 0xF5, 0xF7, 0xF8):
        for b in (0x7F, 0x80, 0x8F, 0x90, 0xBF, 0xC0):
            for c in (0x7F, 0x80, 0xBF, 0xC0):
                for d in (0x80, 0xBF, 0xC0):
                    long_.append(bytes([a, b, c, d]))
    cands += long_

    def enc(d):
        return struct.pack(">I", len(d)) + d + b"\0" * ((4 - len(d) % 4) % 4)
    lines = xv.run_runner(exe, ["0 @string:- 0 %s" % enc(d).hex() for d in cands])
    real_ok = [" OK " in (" " + l.split(" alloc")[0] + " ") and "NonUtf8" not in l for l in lines]
    bad = [l for l in lines if not ("RD OK str:" in l or "NonUtf8String" in l)]
    py_ok = []
    for d in cands:
        try:
            d.decode("utf-8")
            py_ok.append(True)
        except UnicodeDecodeError:
            py_ok.append(False)
    # the model, in two evaluations: all pairs generated inside Coq, the long forms sent as data
    body = ["From XdrModel Require Import Utf8.", "Open Scope N_scope.", "Open Scope list_scope.",
            "Definition bytes256 : list N := map N.of_nat (seq 0 256).",
            "Eval vm_compute in (filter (fun a => utf8_valid [a]) bytes256).",
            "Eval vm_compute in (flat_map (fun a => map (fun b => a * 256 + b) (filter (fun b => utf8_valid [a; b]) bytes256)) bytes256).",
            "Eval vm_compute in (map (fun l => if utf8_valid l then 1 else 0) [%s])." % "; ".join("[%s]" % "; ".join(str(x) for x in d) for d in long_)]
    try:
        out = xv.coq_eval("utf8_tie_%s" % run.tier, "\n".join(body))
    except TieBroken as e:
        run.oblige("UTF-8 tie evaluates", False, str(e))
        return
    parts = re.findall(r'=\s*\[(.*?)\]\s*:\s*list', out, re.S)
    nums = [[int(x) for x in re.findall(r'\d+', p)] for p in parts]
    model_ok = [False] * len(cands)
    if len(nums) == 3:
        for a in nums[0]:
            model_ok[a] = True
        for ab in nums[1]:
            model_ok[256 + ab] = True
        for k, v in enumerate(nums[2]):
            model_ok[256 + 65536 + k] = (v == 1)
    dis_model = [cands[i].hex() for i in range(len(cands)) if model_ok[i] != real_ok[i]]
    dis_py = [cands[i].hex() for i in range(len(cands)) if py_ok[i] != real_ok[i]]
    run.oblige("Utf8.utf8_valid = the verdict of the real read_string on all %d one- and two-byte strings and %d three-/four-byte "
               "boundary strings" % (256 + 65536, len(long_)), len(nums) == 3 and not dis_model and not bad,
               "model differs on %s; unexpected lines %s" % (dis_model[:8], bad[:2]))
    run.cov["utf8_strings_compared"] = len(cands)
    for h in dis_py[:5]:
        run.violation("read_string and RFC 3629 disagree on the byte string %s" % h, {"call": "@string:-", "input": h})


import corpus as corpus_mod  # noqa: E402
import valgen  # noqa: E402

LINE_RE = re.compile(r'^REF (OK|ERR|PANIC) (.*?)(?: consumed=(\d+) wsz=(\d+))? alloc=(\d+) peak=(\d+) \| '
                     r'VAL (OK|ERR|PANIC) (.*?)(?: wsz=(\d+))? alloc=(\d+) peak=(\d+)$')


def parse_line(l):
    """-> dict(ref=(kind, body, consumed, wsz, alloc), val=(kind, body, wsz, alloc)) or None"""
    m = LINE_RE.match(l)
    if not m:
        return None
    g = m.groups()
    return {"ref": (g[0], g[1], int(g[2]) if g[2] else None, int(g[3]) if g[3] else None, int(g[4])),
            "val": (g[6], g[7], int(g[8]) if g[8] else None, int(g[9]))}


def spec_text(C, i):
    return C["specs"][i][1]


def case_replay(C, c, extra=None):
    d = {"spec": spec_text(C, c["spec"]), "type": c["type"], "offset": c["off"],
         "input_hex": c["input"].hex(), "observed": c["real"], "kind": c["kind"]}
    if "expect" in c:
        d["expected"] = c["expect"]
    if extra:
        d.update(extra)
    return d


def corpus_ties(run, C, need=("k2", "k3", "k4")):
    """the correspondence obligations every decoder property depends on"""
    if "k2" in need:
        k2 = C["k2"]
        detail = ""
        if k2["dis"]:
            i, key, code = k2["dis"][0]
            detail = "spec %d (%s) code %d: %s" % (i, key, code, spec_text(C, i)[-300:])
        run.oblige("K2: Render(Gen(real AST)) = real generate() text on %d (AST, derive) pairs" % k2["n"],
                   not k2["dis"] and not k2["bad_header"], detail)
    if "k3" in need:
        k3 = C["k3"]
        detail = ""
        if k3["dis"]:
            c = C["cases"][k3["dis"][0]]
            detail = "type %s input %s real %s" % (c["type"], c["input"].hex()[:200], c["real"][:300])
        run.oblige("K3: Sem(Gen(real AST)) = compiled decoders on %d (type, input) pairs" % k3["n"], not k3["dis"], detail)
    if "k4" in need:
        k4 = C["k4"]
        run.oblige("K4: Spec.v (typing, enc, rv) = the generator's mirror on %d values" % k4["n"], not k4["dis"],
                   str(k4["dis"][:5]))
    run.cov["corpus_specs"] = len(C["specs"])
    run.cov["corpus_compiled_modules"] = len(C["types"])
    run.cov["corpus_cases"] = len(C["cases"])
    kinds = {}
    for c in C["cases"]:
        kinds[c["kind"]] = kinds.get(c["kind"], 0) + 1
    run.cov["case_kinds"] = kinds
    if C["compile_failed"]:
        run.cov["modules_not_compiling"] = [i for i, _ in C["compile_failed"]]


def get_corpus(run):
    try:
        return corpus_mod.build(run.tier, run.seed)
    except TieBroken as e:
        run.oblige("corpus: harnesses build and run against /repo", False, str(e))
        return None


KNOWN_F1 = "F1"
_spec_f1 = {}


def spec_f1(C, i):
    """does the specification have a counted array whose elements can carry an F1 leaf?"""
    key = (C["key"], i)
    if key not in _spec_f1:
        o = [o for o in C["obs"] if o["index"] == i][0]
        _spec_f1[key] = valgen.spec_has_f1_array(valgen.Ctx(o["ast"]))
    return _spec_f1[key]


def f1_known(run, c, what):
    run.known_hit("F1", "F1 wire_size() of an inline variable-length opaque field/arm lacks the 4-byte length "
                        "prefix (witness: struct inner { unsigned int a; opaque data<>; } -> 8 for 12 bytes; as an "
                        "element of 'inner items<>' the next element is read 4 bytes early)")


def f1_zero_known(run):
    run.known_hit("F1", "F1 (consequence) an array element whose wire_size() is short (inline variable-length "
                        "opaque, finding F1) is stepped over by too few bytes -- zero for an empty payload -- so a "
                        "count field alone makes the decoder produce and store elements: struct z { opaque a<>; }; "
                        "struct zs { z items<>; } on 00 00 08 00 + 8 zero bytes yields 2048 elements (65536 bytes); "
                        "a count of 2^28 and more exhausts a 4 GiB address space (the process aborts)")


def sup_coverage(run, C):
    """how many specifications of the corpus satisfy the (decidable) hypothesis of the C01 / C02
    theorems: sup_b evaluated in Coq on the dumped real ASTs"""
    import coqterm as ct
    obs = [o for o in C["obs"] if o["ast"]["outcome"] == "ok" and o["gen_default"]["outcome"] == "ok"]
    shards = xv.shard(obs, 8)

    def runit(sh_i):
        si, sh = sh_i
        body = ["From XdrProofs Require Import NoPanic.", "Open Scope string_scope.",
                "Eval vm_compute in (map sup4_b [%s])." % ";\n".join(ct.ast(o["ast"]) for o in sh)]
        out = xv.coq_eval("supb_%s_%d" % (run.pid, si), "\n".join(body))
        return re.findall(r'\b(true|false)\b', out.split("=", 1)[1].split(": list")[0])
    try:
        vals = [v for r in xv.par(runit, list(enumerate(shards))) for v in r]
    except (TieBroken, IndexError) as e:
        run.cov["sup_b_evaluation_failed"] = str(e)[:300]
        return
    n_true = vals.count("true")
    run.cov["specs_satisfying_theorem_hypothesis_sup4_b"] = "%d of %d" % (n_true, len(vals))
    outside = [C["specs"][o["index"]][1][-120:] for o, v in zip(obs, vals) if v == "false"]
    if outside:
        run.cov["specs_outside_sup_b_samples"] = outside[:5]


def hyp_coverage(run, C, key, module, fn):
    """how many corpus specifications satisfy a decidable theorem hypothesis (evaluated in Coq
    on the dumped real ASTs)"""
    import coqterm as ct
    obs = [o for o in C["obs"] if o["ast"]["outcome"] == "ok" and o["gen_default"]["outcome"] == "ok"]
    shards = xv.shard(obs, 8)

    def runit(sh_i):
        si, sh = sh_i
        body = ["From XdrProofs Require Import %s." % module, "Open Scope string_scope.",
                "Eval vm_compute in (map (%s) [%s])." % (fn, ";\n".join(ct.ast(o["ast"]) for o in sh))]
        out = xv.coq_eval("hyp_%s_%s_%d" % (key[:12], run.pid, si), "\n".join(body))
        return re.findall(r'\b(true|false)\b', out.split("=", 1)[1].split(": list")[0])
    try:
        vals = [v for r in xv.par(runit, list(enumerate(shards))) for v in r]
    except (TieBroken, IndexError) as e:
        run.cov[key + "_evaluation_failed"] = str(e)[:300]
        return
    run.cov[key] = "%d of %d" % (vals.count("true"), len(vals))
    outside = [C["specs"][o["index"]][1][-120:] for o, v in zip(obs, vals) if v == "false"]
    if outside:
        run.cov[key + "_outside_samples"] = outside[:6]


def hyp_coverage_types(run, C, key, module, fn):
    """per declared type: how many (specification, type) pairs satisfy a per-type hypothesis"""
    import coqterm as ct
    obs = [o for o in C["obs"] if o["ast"]["outcome"] == "ok" and o["gen_default"]["outcome"] == "ok"]
    shards = xv.shard(obs, 8)

    def runit(sh_i):
        si, sh = sh_i
        body = ["From XdrProofs Require Import %s." % module, "Open Scope string_scope.",
                "Eval vm_compute in (map (fun a => (N.of_nat (List.length (filter ((%s) a) (map fst (types a)))), "
                "N.of_nat (List.length (types a)))) [%s])." % (fn, ";\n".join(ct.ast(o["ast"]) for o in sh))]
        return xv.parse_pairs(xv.coq_eval("hypt_%s_%s_%d" % (key[:12], run.pid, si), "\n".join(body)))
    try:
        vals = [v for r in xv.par(runit, list(enumerate(shards))) for v in r]
    except (TieBroken, IndexError) as e:
        run.cov[key + "_evaluation_failed"] = str(e)[:300]
        return
    run.cov[key] = "%d of %d (specification, type) pairs" % (sum(a for a, _ in vals), sum(b for _, b in vals))


def term_coverage(run, C):
    hyp_coverage(run, C, "specs_satisfying_termination_hypothesis_term_b", "Termination", "term_b")


def check_c01(run):
    run.theorem_step(["C01"])
    C = get_corpus(run)
    if C is None:
        return
    corpus_ties(run, C)
    sup_coverage(run, C)
    k3bad = set(C["k3"]["dis"])
    for n, c in enumerate(C["cases"]):
        if c["kind"] not in ("valid", "valid_ctx", "valid_big"):
            continue
        x = c["x"]
        run.case((c["spec"], c["type"], c["input"]),
                 {"spec": spec_text(C, c["spec"])[-160:], "type": c["type"], "input": c["input"].hex()[:80],
                  "observed": xv.strip_alloc(c["real"])[:160]})
        run.count("values_step_exact" if valgen.step_exact(x) else "values_with_F1_elements")
        p = parse_line(c["real"])
        want = valgen.canon(x, c["off"])
        ok = p is not None and p["ref"][0] == "OK" and p["val"][0] == "OK" and p["ref"][1] == want and p["val"][1] == want
        if ok:
            continue
        if not valgen.step_exact(x) and n not in k3bad:
            f1_known(run, c, "value")
            run.count("F1_misdecodes")
            continue
        run.violation("decoding the encoding of a value of %s does not return that value" % c["type"],
                      case_replay(C, c, {"expected_value": want}))


def check_c02(run):
    run.theorem_step(["C02"])
    C = get_corpus(run)
    if C is None:
        return
    corpus_ties(run, C)
    sup_coverage(run, C)
    hyp_coverage_types(run, C, "types_satisfying_consumed_hypothesis_sup4_b_and_nof1_from_b", "Consumed",
                       "fun a n => andb (sup4_b a) (nof1_from_b a n)")
    k3bad = set(C["k3"]["dis"])
    for n, c in enumerate(C["cases"]):
        if c["kind"] not in ("valid", "valid_ctx", "valid_big"):
            continue
        x = c["x"]
        e = valgen.enc(x)
        run.case((c["spec"], c["type"], c["input"]),
                 {"type": c["type"], "encoded_len": len(e), "observed": xv.strip_alloc(c["real"])[-60:]})
        p = parse_line(c["real"])
        if p is None or p["ref"][0] != "OK":
            if not valgen.step_exact(x) and n not in k3bad:
                f1_known(run, c, "size")
                continue
            run.violation("a valid encoding of %s is not decoded" % c["type"], case_replay(C, c))
            continue
        nf = valgen.nF1(x)
        run.count("values_nF1_%s" % ("0" if nf == 0 else "pos"))
        if not valgen.step_exact(x):
            if n not in k3bad:
                f1_known(run, c, "size")
                continue
        good = p["ref"][3] == len(e) and p["val"][2] == len(e) and p["ref"][2] == len(e)
        if good:
            continue
        if nf > 0 and p["ref"][3] == len(e) - 4 * nf and p["ref"][2] == len(e) and n not in k3bad:
            f1_known(run, c, "size")
            run.count("F1_short_sizes")
            continue
        run.violation("wire_size()=%s, consumed=%s but the encoding of this %s has %d bytes"
                      % (p["ref"][3], p["ref"][2], c["type"], len(e)), case_replay(C, c, {"encoded_len": len(e)}))


def norm_views(body, off):
    return re.sub(r'bytes@(\d+)', lambda m: "bytes@%d" % (int(m.group(1)) - off), body)


def check_c03(run):
    run.theorem_step(["C03"])
    C = get_corpus(run)
    if C is None:
        return
    corpus_ties(run, C)
    hyp_coverage_types(run, C, "types_satisfying_locality_hypothesis_local_from_b", "Local",
                       "fun a n => match gen a with EOk md => local_from_b a md n | _ => false end")
    k3bad = set(C["k3"]["dis"])
    prev = None
    for n, c in enumerate(C["cases"]):
        l = c["real"]
        run.case((c["spec"], c["type"], c["input"], c["off"]),
                 {"type": c["type"], "kind": c["kind"], "input": c["input"].hex()[:64], "observed": xv.strip_alloc(l)[:140]})
        if l.startswith("ABORT"):
            continue   # C04's business
        p = parse_line(l)
        if p is None:
            run.violation("unparsable observation", case_replay(C, c))
            continue
        r, v = p["ref"], p["val"]
        if (r[0], r[1], r[3]) != (v[0], v[1], v[2]):
            run.violation("TryFrom<&mut Bytes> and TryFrom<Bytes> disagree on the same bytes", case_replay(C, c))
            continue
        if c["kind"] == "ctx2":
            b = C["cases"][c["base"]]
            pb = parse_line(b["real"])
            run.count("accepted_hostile_inputs_redecoded_in_another_context")
            same = (pb is not None and r[0] == "OK" and pb["ref"][0] == "OK" and
                    norm_views(pb["ref"][1], b["off"]) == norm_views(r[1], c["off"]) and pb["ref"][2] == r[2])
            if not same:
                if spec_f1(C, c["spec"]) and n not in k3bad:
                    f1_known(run, c, "step")
                    continue
                run.violation("an accepted input decodes differently at another offset / with other bytes behind it",
                              case_replay(C, c, {"without_context": b["real"], "base_input": b["input"].hex(), "base_off": b["off"]}))
            continue
        if c["kind"] == "valid":
            prev = (c, p)
        if c["kind"] == "valid_ctx" and prev is not None and prev[0]["x"] is c["x"]:
            x = c["x"]
            e = valgen.enc(x)
            p0 = prev[1]
            same = (p0["ref"][0] == r[0] and norm_views(p0["ref"][1], 0) == norm_views(r[1], c["off"])
                    and p0["ref"][2] == r[2])
            exact = r[0] == "OK" and r[2] == len(e)
            if not (same and exact):
                if not valgen.step_exact(x) and n not in k3bad:
                    f1_known(run, c, "step")
                    continue
                run.violation("the result depends on the suffix / offset, or the buffer is not advanced by the "
                              "encoded length (%d)" % len(e), case_replay(C, c, {"without_context": prev[0]["real"]}))


def check_c04(run):
    run.theorem_step(["C04"])
    C = get_corpus(run)
    if C is None:
        return
    corpus_ties(run, C, need=("k2", "k3"))
    sup_coverage(run, C)
    term_coverage(run, C)
    k3bad = set(C["k3"]["dis"])
    for n, c in enumerate(C["cases"]):
        l = c["real"]
        run.case((c["spec"], c["type"], c["input"]),
                 {"type": c["type"], "kind": c["kind"], "input": c["input"].hex()[:64], "observed": xv.strip_alloc(l)[:100]}
                 if c["kind"] in ("word", "prefix", "hugecount", "random") else None)
        if l.startswith("ABORT") or "PANIC" in l:
            if l.startswith("ABORT") and "alloc" in l and spec_f1(C, c["spec"]) and n not in k3bad:
                f1_zero_known(run)
                continue
            run.violation("decoder of %s %s on hostile bytes" % (c["type"], "aborts the process" if l.startswith("ABORT") else "panics"),
                          case_replay(C, c))
    # deep optional chains: native recursion (finding F9)
    deep_chain_probe(run)


def deep_chain_probe(run):
    spec = "struct node { unsigned int val; node *next; };\n"
    try:
        o = xv.run_front([spec], "c04_chain")[0]
        exe, types, failed = xv.build_runner([(0, o["gen_default"]["path"], o["ast"])], "c04_chain")
    except TieBroken as e:
        run.oblige("deep-chain probe builds", False, str(e))
        return
    depths = [10, 1000, 20000, 200000] if run.tier == "quick" else [10, 1000, 20000, 100000, 200000, 1000000]
    res = {}
    for d in depths:
        body = b"".join(struct.pack(">II", i & 0xffffffff, 1) for i in range(d - 1)) + struct.pack(">II", 7, 0)
        out = xv.run_runner(exe, ["0 node 0 %s" % body.hex()], mem_limit=8 << 30, stack_limit=8 << 20)
        res[d] = out[0][:40] if out else "?"
        run.case(("chain", d))
        if out and out[0].startswith("ABORT"):
            k = [f for f in run.known["findings"] if f["id"] == "F9"]
            if k and d >= k[0]["min_depth"]:
                run.known_hit("F9", "F9 an optional chain of %d links (%d input bytes) overflows the native stack: "
                                    "one stack frame per link (struct node { unsigned int val; node *next; })" % (d, len(body)))
            else:
                run.violation("optional chain of depth %d aborts the process" % d,
                              {"spec": spec, "type": "node", "depth": d, "observed": out[0]})
            break
        if out and "PANIC" in out[0]:
            run.violation("optional chain of depth %d panics" % d, {"spec": spec, "type": "node", "depth": d, "observed": out[0]})
    run.cov["deep_chain_outcomes"] = {str(k): v for k, v in res.items()}


def check_c05(run):
    run.theorem_step(["C05"])
    C = get_corpus(run)
    if C is None:
        return
    corpus_ties(run, C)
    k3bad = set(C["k3"]["dis"])
    last_valid = None
    for n, c in enumerate(C["cases"]):
        if c["kind"] == "valid":
            last_valid = c
            x = c["x"]
            # a value that sits exactly on a maximum must be accepted
            p = parse_line(c["real"])
            run.case((c["spec"], c["type"], c["input"], "valid"))
            if (p is None or p["ref"][0] != "OK") and valgen.step_exact(x):
                run.violation("a valid (possibly maximal) value of %s is rejected" % c["type"], case_replay(C, c))
            continue
        if c["kind"] not in ("prefix", "overmax"):
            continue
        run.case((c["spec"], c["type"], c["input"], c["kind"]),
                 {"type": c["type"], "kind": c["kind"], "input": c["input"].hex()[:64], "observed": xv.strip_alloc(c["real"])[:80]})
        run.count(c["kind"])
        p = parse_line(c["real"])
        ok = p is not None and p["ref"][:2] == ("ERR", "InvalidLength") and p["val"][:2] == ("ERR", "InvalidLength")
        if ok:
            continue
        if c["kind"] == "prefix" and last_valid is not None and not valgen.step_exact(last_valid["x"]) and n not in k3bad:
            f1_known(run, c, "prefix")
            continue
        if n not in k3bad and spec_f1(C, c["spec"]):
            f1_known(run, c, c["kind"])
            continue
        if c["real"].startswith("ABORT") or "PANIC" in c["real"]:
            what = "a truncated / over-long input makes the decoder panic instead of returning InvalidLength"
        elif c["kind"] == "prefix":
            what = "a strict prefix (%d of %d bytes) of a valid encoding is not rejected with InvalidLength" % (len(c["input"]), c.get("full", -1))
        else:
            what = "a count one above the declared maximum is not rejected with InvalidLength"
        run.violation(what, case_replay(C, c))
    # F3: the bound of a typedef'd variable-length opaque is dropped by Typedef::new
    f3_probe(run)


def f3_probe(run):
    spec = "typedef opaque fh<8>;\nstruct usefh { fh h; };\n"
    try:
        o = xv.run_front([spec], "c05_f3")[0]
        exe, types, failed = xv.build_runner([(0, o["gen_default"]["path"], o["ast"])], "c05_f3")
    except TieBroken as e:
        run.oblige("F3 probe builds", False, str(e))
        return
    inp = struct.pack(">I", 9) + bytes(range(9)) + b"\0\0\0"
    out = xv.run_runner(exe, ["0 fh 0 %s" % inp.hex(), "0 fh 0 %s" % (struct.pack(">I", 8) + bytes(8)).hex()])
    run.case(("f3", 9))
    if "OK" in out[0]:
        if any(f["id"] == "F3" for f in run.known["findings"]):
            run.known_hit("F3", "F3 'typedef opaque fh<8>' accepts a 9-byte payload: Typedef::new maps every "
                                "variable-length opaque typedef to ArrayType::None and drops the declared maximum")
        else:
            run.violation("typedef opaque fh<8> accepts length 9", {"spec": spec, "type": "fh", "input_hex": inp.hex(), "observed": out[0]})
    if "OK" not in out[1]:
        run.violation("typedef opaque fh<8> rejects length 8", {"spec": spec, "type": "fh", "observed": out[1]})


def check_c06(run):
    run.theorem_step(["C06"])
    C = get_corpus(run)
    if C is None:
        return
    corpus_ties(run, C)
    k3bad = set(C["k3"]["dis"])
    last_valid = None
    for n, c in enumerate(C["cases"]):
        if c["kind"] == "valid":
            last_valid = c
            x = c["x"]
            if x[0] == "Union":
                run.count("union_arms_selected")
                run.case((c["spec"], c["type"], x[3], c["input"][:4]),
                         {"type": c["type"], "disc": c["input"][:4].hex(), "variant": x[3], "observed": xv.strip_alloc(c["real"])[:100]})
                p = parse_line(c["real"])
                want = valgen.canon(x, 0)
                if not (p and p["ref"][0] == "OK" and p["ref"][1] == want) and valgen.step_exact(x):
                    run.violation("discriminant %s of union %s does not select the arm the specification assigns (%s)"
                                  % (c["input"][:4].hex(), c["type"], x[3]), case_replay(C, c, {"expected_value": want}))
            continue
        if "expect_err" not in c or c["kind"] == "overmax":
            continue
        run.case((c["spec"], c["type"], c["input"], c["kind"]),
                 {"type": c["type"], "kind": c["kind"], "at": c.get("at"), "expect": c["expect_err"], "observed": xv.strip_alloc(c["real"])[:80]})
        run.count("reject_" + c["kind"])
        p = parse_line(c["real"])
        ok = p is not None and p["ref"][0] == "ERR" and p["ref"][1] == c["expect_err"] and p["val"][:2] == p["ref"][:2]
        if ok:
            continue
        if last_valid is not None and not valgen.step_exact(last_valid["x"]) and n not in k3bad:
            f1_known(run, c, "reject")
            continue
        if n not in k3bad and spec_f1(C, c["spec"]):
            f1_known(run, c, "reject")
            continue
        run.violation("%s word at offset %s is not rejected with %s" % (c["kind"], c.get("at"), c["expect_err"]), case_replay(C, c))


def check_c08(run):
    run.theorem_step(["C08"])
    C = get_corpus(run)
    if C is None:
        return
    corpus_ties(run, C)
    k3bad = set(C["k3"]["dis"])
    for n, c in enumerate(C["cases"]):
        l = c["real"]
        if "bytes@" not in l:
            continue
        views = re.findall(r'bytes@(\w+):([0-9a-f]*)', l)
        nonempty = [(o, h) for o, h in views if h]
        if not nonempty:
            continue
        run.case((c["spec"], c["type"], c["input"], c["off"]),
                 {"type": c["type"], "kind": c["kind"], "views": nonempty[:3], "offset": c["off"]})
        alloc = b"\xaa" * c["off"] + c["input"]
        for o, h in nonempty:
            run.count("opaque_leaves")
            if o == "OUTSIDE" or o == "E":
                run.violation("a non-empty opaque payload of %s is not a view into the input buffer (copied)" % c["type"], case_replay(C, c))
                break
            o = int(o)
            if alloc[o:o + len(h) // 2].hex() != h:
                run.violation("an opaque payload is not at the offset where its bytes appear on the wire", case_replay(C, c))
                break
        if c["kind"] in ("valid", "valid_ctx", "valid_big"):
            x = c["x"]
            want = valgen.canon(x, c["off"])
            p = parse_line(l)
            if p and p["ref"][0] == "OK" and p["ref"][1] != want and valgen.step_exact(x):
                run.violation("opaque payloads are not at their wire offsets", case_replay(C, c, {"expected_value": want}))


def check_c09(run):
    run.theorem_step(["C09"])
    C = get_corpus(run)
    if C is None:
        return
    corpus_ties(run, C, need=("k2", "k3"))
    hyp_coverage_types(run, C, "types_satisfying_linear_total_hypothesis_lin_from_b", "Linear", "lin_from_b")
    # linear bound with constants from the specification: every request is for data present
    maxsize = {}
    ntypes = {}
    for (i, ty), sz in C["sizes"].items():
        maxsize[i] = max(maxsize.get(i, 8), sz)
        ntypes[i] = ntypes.get(i, 0) + 1
    worst = (0, None)
    f1cx = {}
    f15cx = {}
    lookup = {o["index"]: o for o in C["obs"]}
    k3bad = set(C["k3"]["dis"])
    for n, c in enumerate(C["cases"]):
        l = c["real"]
        if l.startswith("ABORT"):
            if "alloc" in l:
                if spec_f1(C, c["spec"]) and n not in k3bad:
                    f1_zero_known(run)
                else:
                    run.violation("a length field makes the decoder request memory the allocator cannot provide", case_replay(C, c))
            continue
        if C["specs"][c["spec"]][0] == "fixed_validonly":
            continue    # zero-wire-size elements: a count is then a legitimate encoding of that many values
        for a, peak in xv.allocs(l):
            bound = (len(c["input"]) + 8) * maxsize.get(c["spec"], 8) * (ntypes.get(c["spec"], 1) + 1)
            run.evaluations += 1
            if a > bound:
                cx = f1cx.get(c["spec"])
                if cx is None:
                    cx = f1cx[c["spec"]] = valgen.spec_has_f1_array(valgen.Ctx(lookup[c["spec"]]["ast"]))
                if cx and n not in k3bad:
                    f1_zero_known(run)
                    run.count("F1_array_overallocation")
                    continue
                if c["spec"] not in f15cx:
                    f15cx[c["spec"]] = valgen.spec_has_self_nested_array(valgen.Ctx(lookup[c["spec"]]["ast"]))
                if f15cx[c["spec"]] and n not in k3bad and any(f["id"] == "F15" for f in run.known["findings"]):
                    run.known_hit("F15", "F15 a counted array nested in its own element type reserves min(count, remaining) elements at "
                                         "every level: struct tnest { unsigned int v; tnest kids<>; } on 1000 x (00000007 00ffffff) = 8000 "
                                         "input bytes requests 127 872 000 bytes (quadratic in the input)")
                    run.count("F15_nested_reservations")
                    continue
                run.violation("decode of %d input bytes requested %d bytes from the allocator (bound %d)" % (len(c["input"]), a, bound),
                              case_replay(C, c, {"requested": a, "bound": bound}))
                break
            if len(c["input"]) > 0 and a / (len(c["input"]) + 8) > worst[0]:
                worst = (a / (len(c["input"]) + 8), n)
        if c["kind"] in ("hugecount", "word", "overmax"):
            run.case((c["spec"], c["type"], c["input"]),
                     {"type": c["type"], "kind": c["kind"], "input": c["input"].hex()[:48], "requested": xv.allocs(l)})
    run.cov["worst_bytes_requested_per_input_byte"] = round(worst[0], 2)
    # tie: the real allocator is asked for exactly what the model's ledger says
    k3a(run, C)


def k3a(run, C):
    import coqterm as ct
    lookup = {o["index"]: o for o in C["obs"]}
    # arrays of zero-wire-size elements (opaque[0] markers, F1 elements with an empty payload) hold
    # more elements than input bytes, so the Vec grows past its initial reservation through std's
    # amortised policy, which the ledger (reservations the decoder asks for) does not model
    zero_ok = {}

    def ledger_applies(c):
        i = c["spec"]
        if i not in zero_ok:
            zero_ok[i] = not (C["specs"][i][0] == "fixed_validonly" or valgen.spec_has_f1_array(valgen.Ctx(lookup[i]["ast"])))
        return zero_ok[i]
    sel = [n for n, c in enumerate(C["cases"]) if c["kind"] in ("hugecount", "word", "overmax", "valid", "random", "wrapcount")
           and not c["real"].startswith("ABORT") and ledger_applies(c)]
    rng = random.Random(run.seed)
    if len(sel) > (6000 if run.tier == "quick" else 60000):
        sel = sorted(rng.sample(sel, 6000 if run.tier == "quick" else 60000))
    by_spec = {}
    for n in sel:
        by_spec.setdefault(C["cases"][n]["spec"], []).append(n)
    shards = xv.shard(list(by_spec.items()), 16)

    def runit(sh_i):
        si, sh = sh_i
        body = ["From XdrModel Require Import Canon.", "Open Scope string_scope."]
        evals = []
        for k, (i, ns) in enumerate(sh):
            sizes = ct.clist(["(%s, %d%%N)" % (ct.cstr(ty), sz) for (j, ty), sz in C["sizes"].items() if j == i])
            rows = []
            for n in ns:
                c = C["cases"][n]
                a = xv.allocs(c["real"])
                rows.append("(%d%%N, %s, %d%%N, %s, %d%%N)" % (n, ct.cstr(c["type"]), c["off"], ct.cstr(c["input"].hex()), a[0][0]))
            body.append("Definition a%d : ast := %s." % (k, ct.ast(lookup[i]["ast"])))
            body.append("Definition c%d : list (N * string * N * string * N) := [%s]." % (k, ";\n".join(rows)))
            evals.append("k3a_run a%d %s c%d" % (k, sizes, k))
        if not evals:
            return []
        body.append("Eval vm_compute in ((%s)%%list)." % " ++ ".join(evals))
        return xv.parse_nums(xv.coq_eval("k3a_%s_%d" % (run.tier, si), "\n".join(body)))

    try:
        res = [x for r in xv.par(runit, list(enumerate(shards))) for x in r]
    except TieBroken as e:
        run.oblige("K3a: allocator requests = model ledger", False, str(e))
        return
    detail = ""
    if res:
        c = C["cases"][res[0]]
        detail = "type %s input %s real %s" % (c["type"], c["input"].hex()[:100], c["real"][:200])
    run.oblige("K3a: bytes requested from the allocator = the model's reservation ledger on %d decodes" % len(sel), not res, detail)


# =======================================================================================
# C11 - C15, C07: the generator

import specgen  # noqa: E402


def front_specs(run, n_random, rich=False, max_decls=8):
    out = []
    for i in range(n_random):
        r = random.Random(run.seed * 104729 + i)
        decls = specgen.random_spec(r, max_decls)
        out.append(decls)
    return out


def items_of(o, key="default"):
    g = o["gen_" + key]
    if g["outcome"] != "ok":
        return None
    items, closing = xv.split_items(g["body"], xv.DERIVE_DEFAULT if key == "default" else xv.DERIVE_CLONE)
    return sorted(items)


def k_front(run, obs, tag, want_k2=True):
    try:
        n1, d1 = xv.k1(obs, tag)
        detail = ""
        if d1:
            detail = "code %d on: %s" % (d1[0][1], obs[d1[0][0]]["text"][:400])
        run.oblige("K1: model front end (Peg+Grammar, Walk, indexes) = real pest/Ast::new on %d texts" % n1, not d1, detail)
        run.cov["k1_cases"] = n1
        if want_k2:
            n2, d2, bad = xv.k2(obs, tag)
            detail = ""
            if d2:
                detail = "code %d on: %s" % (d2[0][2], obs[d2[0][0]]["text"][:400])
            run.oblige("K2: Render(Gen(real AST)) = real generate() text on %d (AST, derive) pairs" % n2, not d2 and not bad, detail)
            run.cov["k2_cases"] = n2
        return d1
    except TieBroken as e:
        run.oblige("front-end correspondence runs", False, str(e))
        return []


SCAN_FORBIDDEN = [r'\bSystemTime\b', r'\bInstant\b', r'std::time', r'\bthread\b', r'\brand\b', r'RandomState',
                  r'std::env', r'\bgetrandom\b', r'thread_local', r'static\s+mut', r'\bMutex\b', r'\bAtomic']


def source_scan(run):
    """nothing reachable from generate() may depend on a clock, the environment, threads or a
    random source; hash-ordered containers may only be consulted through membership"""
    hits = []
    hash_users = []
    for f in xv.src_files():
        if not f.endswith(".rs") or f.endswith("main.rs") or f.endswith("header.rs"):
            continue
        txt = open(f).read()
        code = txt.split("#[cfg(test)]")[0]
        code = "\n".join(l for l in code.split("\n") if not l.lstrip().startswith("//"))
        for pat in SCAN_FORBIDDEN:
            if re.search(pat, code):
                hits.append("%s: %s" % (os.path.basename(f), pat))
        if re.search(r'\bHash(Set|Map)\b', code):
            hash_users.append(os.path.basename(f))
            # every use of the set must be contains / insert / len / new
            for m in re.finditer(r'\bindex\.(\w+)\(', code):
                if m.group(1) not in ("contains", "insert", "len"):
                    hits.append("%s: HashSet consulted through .%s()" % (os.path.basename(f), m.group(1)))
            for m in re.finditer(r'\bself\.0\.(\w+)\(', code):
                if m.group(1) not in ("contains",):
                    hits.append("%s: HashSet consulted through .%s()" % (os.path.basename(f), m.group(1)))
    for f in xv.src_files():
        if f.endswith(".rs") and not f.endswith("header.rs"):
            code = open(f).read().split("#[cfg(test)]")[0]
            for m in re.finditer(r'generics\(\)\s*\.\s*(\w+)', code):
                if m.group(1) not in ("contains",):
                    hits.append("%s: generics() consulted through .%s" % (os.path.basename(f), m.group(1)))
    run.cov["hash_container_files"] = hash_users
    run.oblige("source scan: no clock/env/thread/random source reachable from generate(); hash sets only via contains/insert/len",
               not hits and set(hash_users) <= {"generic_types.rs"}, "; ".join(hits[:8]) + " hash users: %s" % hash_users)


def build_cli(run):
    r = xv.sh(["cargo", "build", "--offline", "-q", "--bin", "fastxdr", "--manifest-path", os.path.join(xv.REPO, "Cargo.toml")],
              env=xv.CARGO_ENV, timeout=1200)
    if r.returncode != 0:
        raise TieBroken("the fastxdr binary does not build: " + r.stdout[-2000:])
    return os.path.join(xv.TARGET, "debug", "fastxdr")


def check_c11(run):
    run.theorem_step(["C11"])
    source_scan(run)
    nrand = 40 if run.tier == "quick" else 300
    decl_lists = front_specs(run, nrand)
    texts, meta = [], []
    lpairs = []          # (base text, its sdecl term, layout text, its sdecl term): premise of the layout theorem
    for di, decls in enumerate(decl_lists):
        sp0 = []
        base = specgen.print_spec(decls, bt_spans=sp0)
        texts.append(base)
        meta.append((di, "base"))
        d0 = specgen.sdecl_terms(decls, sp0, xv.coq_text)
        for v in range(2 if run.tier == "quick" else 5):
            sp1 = []
            texts.append(specgen.print_spec(decls, random.Random(run.seed + di * 31 + v), rich=True, bt_spans=sp1))
            meta.append((di, "layout"))
            lpairs.append((base, d0, texts[-1], specgen.sdecl_terms(decls, sp1, xv.coq_text)))
        for v in range(2 if run.tier == "quick" else 5):
            perm = list(decls)
            random.Random(run.seed + di * 17 + v).shuffle(perm)
            if v == 0:
                perm = list(reversed(decls))
            texts.append(specgen.print_spec(perm))
            meta.append((di, "perm"))
    # declarations that refer to one another by NAME in every way the grammar allows -- a constant
    # defined by a constant, labels and bounds through such aliases, enum values by constant,
    # typedef chains -- in ALL orders (anything resolved while the declarations are walked once
    # depends on the order)
    import itertools
    xrefs = [
        [("const", "NFS4_FHSIZE", "128"), ("const", "MAX_HANDLE", "NFS4_FHSIZE"),
         ("struct", "fhs", [("unsigned int", "len", "", False), ("opaque", "h", "<NFS4_FHSIZE>", False)]),
         ("union", "ux", "int", "k", [(["MAX_HANDLE"], ("data", "int", "a")), (["3"], ("void",))], None)],
        [("const", "A1", "1"), ("const", "B1", "A1"), ("const", "C1", "B1"),
         ("enum", "ex", [("M0", "0"), ("M1", "C1")]),
         ("union", "uy", "unsigned int", "k", [(["C1", "5"], ("void",))], ("data", "hyper", "rest"))],
        [("typedef", "int", "ta", ""), ("typedef", "ta", "tb", ""), ("typedef", "tb", "tc", "<>"),
         ("struct", "usetc", [("tc", "xs", "", False), ("tb", "y", "[2]", False)])],
        [("typedef", "opaque", "blobx", "<>"), ("typedef", "blobx", "blobs", "<4>"),
         ("struct", "holdsb", [("blobs", "bs", "", False)]), ("union", "ub", "bool", "f", [(["TRUE"], ("data", "holdsb", "h"))], None)],
    ]
    for xi, decls in enumerate(xrefs):
        for pi, perm in enumerate(itertools.permutations(decls)):
            texts.append(specgen.print_spec(list(perm)))
            meta.append((100000 + xi, "base" if pi == 0 else "perm"))
    # every trivia class at every gap between two tokens, one at a time (a token that swallows or
    # chokes on what follows it does so at one particular gap: finding F13)
    sweeps = [
        [("const", "MAXN", "0x10"), ("enum", "col", [("RED", "0"), ("BLUE", "0x1F")]),
         ("struct", "pt", [("unsigned int", "x", "[3]", False), ("pt", "next", "", True), ("opaque", "o", "<MAXN>", False), ("string", "s", "<>", False)]),
         ("union", "uu", "col", "c", [(["RED", "BLUE"], ("data", "hyper", "h"))], ("falls", ["7"], ("void",))),
         ("typedef", "opaque", "blob", "<8>"), ("typedef", "pt", "pts", "[2]")],
    ]
    if run.tier != "quick":
        sweeps.append(decl_lists[0])
    for si, decls in enumerate(sweeps):
        sweep_base = None
        for text, gap, triv, sp in specgen.gap_sweep(decls, specgen.TRIVIA_QUICK if run.tier == "quick" else None, with_spans=True):
            texts.append(text)
            meta.append((200000 + si, "base" if gap is None else "layout"))
            term = specgen.sdecl_terms(decls, sp, xv.coq_text)
            if gap is None:
                sweep_base = (text, term)
            else:
                lpairs.append((sweep_base[0], sweep_base[1], text, term))
    base_di = len(decl_lists)
    graphs = specgen.graph_specs(2)
    grng = random.Random(run.seed + 99)
    by_set = {}
    for g in graphs:
        by_set.setdefault(tuple(sorted(map(repr, g))), []).append(g)
    groups = list(by_set.values())
    if run.tier == "quick":
        groups = grng.sample(groups, min(len(groups), 700))
    for gi, orders in enumerate(groups):
        for oi, decls in enumerate(orders):
            texts.append(specgen.print_spec(decls))
            meta.append((base_di + gi, "base" if oi == 0 else "perm"))
    for s in xv.harvest_specs():
        texts.append(s)
        meta.append((-1, "harvest"))
    try:
        obs = xv.run_front(texts, "c11")
    except TieBroken as e:
        run.oblige("front harness runs", False, str(e))
        return
    k_front(run, obs, "c11")
    # the layout theorem's premise on the very layout pairs compared below (coverage; non-vacuity)
    try:
        nl, notl = xv.layout_pairs(lpairs, "c11")
        run.cov["layout_theorem_premise"] = "holds on %d of %d (base, layout) pairs" % (nl - len(notl), nl)
        if notl:
            run.cov["layout_theorem_premise_first_miss"] = lpairs[notl[0]][2][:300]
        run.oblige("the premise of C11_layout_independent_full holds of real layout pairs (%d of %d)" % (nl - len(notl), nl),
                   nl - len(notl) > 0, "no layout pair meets the premise")
    except TieBroken as e:
        run.oblige("layout premise evaluation runs", False, str(e))
    base_items = {}
    for o, (di, kind) in zip(obs, meta):
        run.case((di, kind, o["text"]), {"kind": kind, "text": o["text"][:120]} if kind != "harvest" else None)
        run.count("variants_" + kind)
        g = o["gen_default"]
        if g["outcome"] == "ok" and not g.get("repeat_same", True):
            run.violation("two calls of generate() on one Generator with the same text differ", {"spec": o["text"]})
        if not o.get("shared_same", True):
            run.violation("a Generator that has been used for other specifications produces a different output", {"spec": o["text"]})
        if kind == "base":
            base_items[di] = (items_of(o), o)
        elif kind in ("layout", "perm"):
            b, bo = base_items[di]
            it = items_of(o)
            if it != b:
                run.violation("%s changes the generated items" % ("inserting whitespace/comments between tokens" if kind == "layout" else "reordering top-level declarations"),
                              {"spec_a": bo["text"], "spec_b": o["text"],
                               "outcome_a": bo["gen_default"]["outcome"], "outcome_b": o["gen_default"]["outcome"]})
    # fresh processes (fresh hash seeds): the CLI binary, byte-identical output every time
    try:
        exe = build_cli(run)
    except TieBroken as e:
        run.oblige("CLI builds", False, str(e))
        return
    d = os.path.join(xv.WORK, "runs", "c11_cli")
    os.makedirs(d, exist_ok=True)
    picks = [o for o, (di, kind) in zip(obs, meta) if kind == "base" and o["gen_default"]["outcome"] == "ok"]
    picks = picks[: (12 if run.tier == "quick" else 60)]
    nproc = 6 if run.tier == "quick" else 25
    for k, o in enumerate(picks):
        p = os.path.join(d, "s%d.x" % k)
        open(p, "w").write(o["text"])
        want = open(o["gen_default"]["path"], "rb").read() + b"\n"
        for j in range(nproc):
            r = __import__("subprocess").run([exe, p], stdout=-1, stderr=-1)
            run.evaluations += 1
            if r.stdout != want:
                run.violation("output differs between processes (or from the library's)", {"spec": o["text"], "process": j})
                break
    run.cov["fresh_processes_per_spec"] = nproc
    run.cov["specs_run_in_fresh_processes"] = len(picks)


def check_c12(run):
    run.theorem_step(["C12"])
    nrand = 60 if run.tier == "quick" else 600
    decl_lists = front_specs(run, nrand, max_decls=10)
    texts, meta, spans = [], [], []

    def emit(decls, rng, rich):
        sp = []
        texts.append(specgen.print_spec(decls, rng, rich=rich, bt_spans=sp))
        meta.append(decls)
        spans.append(sp)
    for di, decls in enumerate(decl_lists):
        emit(decls, random.Random(run.seed + di), (di % 3 != 0))
    # declarator / spelling matrix through the declaration model
    for t in specgen.U32_SPELL + specgen.I32_SPELL + specgen.U64_SPELL + specgen.I64_SPELL + ["float", "double", "bool"]:
        decls = [("struct", "sp", [(t, "x", "", False), (t, "y", "[3]", False)]), ("typedef", t, "tsp", "")]
        emit(decls, random.Random(len(texts)), True)
    for sfx in ["", "[4]", "[KK]", "<>", "<5>", "<KK>"]:
        decls = [("const", "KK", "6"), ("struct", "dd", [("opaque", "o", sfx, False), ("node_t", "n", sfx, False)] +
                 ([("string", "s", sfx, False)] if not sfx.startswith("[") else [])), ("struct", "node_t", [("int", "v", "", False), ("node_t", "next", "", True)]),
                 ("typedef", "node_t", "tdn", sfx), ("typedef", "opaque", "tdo", sfx)]
        emit(decls, random.Random(len(texts)), True)
    decls = [("enum", "e1", [("A", "0"), ("B", "0x1F"), ("C", "0X10" if False else "16")]),
             ("union", "uu", "e1", "which", [(["A", "B"], ("data", "int", "x")), (["C"], ("void",))], ("data", "hyper", "rest")),
             ("union", "uv", "unsigned int", "k", [(["1", "2", "3"], ("void",)), (["4"], ("data", "string", "s"))], ("void",))]
    emit(decls, random.Random(3), True)
    # fall-through chains ending in a default arm (data / void), const and enum labels
    for arm in (("data", "unsigned hyper", "rest"), ("void",), ("data", "opaque", "o")):
        decls = [("const", "THREE", "3"), ("enum", "ee", [("P", "1"), ("Q", "2"), ("R", "7")]),
                 ("union", "fd1", "int", "k", [(["1"], ("data", "int", "a"))], ("falls", ["2", "THREE"], arm)),
                 ("union", "fd2", "ee", "k", [(["P"], ("void",))], ("falls", ["Q"], arm)),
                 ("union", "fd3", "unsigned int", "k", [], ("falls", ["5", "6", "7"], arm))]
        emit(decls, random.Random(len(texts)), (arm[0] == "void"))
    try:
        obs = xv.run_front(texts, "c12")
    except TieBroken as e:
        run.oblige("front harness runs", False, str(e))
        return
    k_front(run, obs, "c12", want_k2=False)
    try:
        cases = [(o, specgen.sdecl_terms(d, sp, xv.coq_text)) for o, d, sp in zip(obs, meta, spans)]
        n5, d5 = xv.k5(cases, "c12")
        detail = ""
        if d5:
            detail = "code %d on: %s" % (d5[0][1], obs[d5[0][0]]["text"][:400])
        run.oblige("K5: Source.tree_of = erased parse tree, decl_okb, Ast of item_of = real Ast on %d declaration lists "
                   "(premises of C12_walk / C12_ast hold of real specifications)" % n5, not d5, detail)
        run.cov["k5_cases"] = n5
        # the premise of the text theorems (C12_text_to_ast, C11_layout_independent) on the very texts
        # that went through the real parser: a coverage measure, and their non-vacuity
        nr, notr = xv.k5_reads(cases, "c12")
        run.cov["text_theorem_premise"] = "reads_as holds on %d of %d K5 texts" % (nr - len(notr), nr)
        if notr:
            run.cov["text_theorem_premise_first_miss"] = obs[notr[0]]["text"][:300]
        run.oblige("the premise reads_as of the text theorems holds of real specification texts (%d of %d)" % (nr - len(notr), nr),
                   nr - len(notr) > 0, "no K5 text meets reads_as")
    except TieBroken as e:
        run.oblige("K5 runs", False, str(e))
    for o, decls in zip(obs, meta):
        run.case(o["text"], {"text": o["text"][:160]})
        want = specgen.expected_ast(decls)
        a = o["ast"]
        if a["outcome"] != "ok":
            run.violation("Ast::new fails on a specification of the supported subset (%s)" % a["outcome"], {"spec": o["text"], "observed": a})
            continue
        got = {"constants": a["constants"], "types": a["types"], "generics": a["generics"]}
        want_n, f3 = specgen.normalize_f3(want)
        if got == want_n:
            if f3:
                if any(f["id"] == "F3" for f in run.known["findings"]):
                    run.known_hit("F3", "F3 the declared maximum of 'typedef opaque NAME<MAX>' is not in the Ast (Typedef::new maps it to ArrayType::None)")
                else:
                    run.violation("the bound of a typedef'd variable-length opaque is dropped", {"spec": o["text"], "typedefs": f3})
            for kind in ("constants", "types", "generics"):
                run.count("declared_" + kind, len(got[kind]))
            continue
        diff = [k for k in got if got[k] != want_n[k]]
        run.violation("the Ast does not reflect the declarations (%s differ)" % ", ".join(diff),
                      {"spec": o["text"], "expected": {k: want_n[k] for k in diff}, "observed": {k: got[k] for k in diff}})


def emitted_generic(body, name):
    """(type decl generic?, from impls generic?, size impl generic?)"""
    ty = re.search(r'^pub (?:struct|enum) %s(<T[^\n]*|\s*\(pub|\s*\{| where)' % re.escape(name), body, re.M)
    tyg = bool(ty and ty.group(1).startswith("<T"))
    fr = re.findall(r'^impl TryFrom<(?:&mut )?Bytes> for %s(<Bytes>)? \{' % re.escape(name), body, re.M)
    sz = re.findall(r'^impl WireSize for %s(<Bytes>)? \{' % re.escape(name), body, re.M)
    return tyg, [bool(x) for x in fr], [bool(x) for x in sz]


def check_c13(run):
    run.theorem_step(["C13"])
    graphs = specgen.graph_specs(1) + specgen.graph_specs(2)
    run.cov["exhaustive_k"] = 2
    rng = random.Random(run.seed)
    if run.tier == "thorough":
        graphs += specgen.graph_specs(3, limit=40000, rng=rng)
    else:
        graphs += specgen.graph_specs(3, limit=600, rng=rng)
    for i in range(30 if run.tier == "quick" else 400):
        r = random.Random(run.seed * 31 + i)
        graphs.append(specgen.chain_spec(r, r.choice([14, 20, 40]), r.choice([12, 13, 20])))
    spans = [[] for _ in graphs]
    texts = [specgen.print_spec(d, bt_spans=sp) for d, sp in zip(graphs, spans)]
    try:
        obs = xv.run_front(texts, "c13")
    except TieBroken as e:
        run.oblige("front harness runs", False, str(e))
        return
    sample = obs if len(obs) <= 2500 else [obs[i] for i in sorted(rng.sample(range(len(obs)), 2500))]
    k_front(run, sample, "c13")
    # K5 on a sample: the dependency graphs as Source declaration lists (premises of C12_ast, whose
    # third clause is C13_reach)
    try:
        idx = sorted(rng.sample(range(len(obs)), min(len(obs), 400)))
        cases = [(obs[i], specgen.sdecl_terms(graphs[i], spans[i], xv.coq_text)) for i in idx]
        n5, d5 = xv.k5(cases, "c13")
        run.oblige("K5: Source.tree_of = erased parse tree, decl_okb, Ast of item_of = real Ast on %d dependency graphs" % n5,
                   not d5, ("code %d on: %s" % (d5[0][1], cases[d5[0][0]][0]["text"][:300])) if d5 else "")
    except TieBroken as e:
        run.oblige("K5 runs", False, str(e))
    for o, decls in zip(obs, graphs):
        a = o["ast"]
        if a["outcome"] != "ok":
            run.violation("Ast::new fails on a dependency graph", {"spec": o["text"], "observed": a})
            continue
        types = dict((k, v) for k, v in specgen.expected_ast(decls)["types"])
        want = sorted(specgen.reach(types))
        run.case(o["text"], {"spec": o["text"][:200], "generics": a["generics"]} if len(decls) > 2 else None)
        run.count("graphs_%d_decls" % min(len(decls), 4))
        if a["generics"] != want:
            run.violation("Ast::generics() = %s but opaque is reachable exactly from %s" % (a["generics"], want),
                          {"spec": o["text"], "expected": want, "observed": a["generics"]})
            continue
        g = o["gen_default"]
        if g["outcome"] != "ok":
            continue
        for name, t in types.items():
            if "Enum" in t:
                continue
            tyg, fr, sz = emitted_generic(g["body"], name)
            isg = name in want
            if "Typedef" in t and t["Typedef"]["target"] == {"Ident": name}:
                continue
            if tyg != isg or fr != [isg, isg] or sz != [isg]:
                run.violation("the emitted type/decoders/size of %s %s the byte-container parameter but the name is %sgeneric"
                              % (name, "carry" if (tyg or any(fr) or any(sz)) else "lack", "" if isg else "not "),
                              {"spec": o["text"], "name": name, "type_generic": tyg, "from_generic": fr, "size_generic": sz})
                break


F11_SITES = {"enumeration.rs:from", "constants.rs:new", "structure.rs:new", "union.rs:new", "from.rs:print_decode_array"}


def hostile_texts(run):
    r = run.rng
    base = [
        "enum e { A = 0xZZ };", "enum e { A = 0x80000000 };", "enum e { A = 0x };", "enum e { A = 0x0x10 };", "enum e { A = 99999999999 };",
        "const A = 1; const A = 2;", "enum e { A = 1 }; enum f { A = 2 };", "const A = 1; enum e { A = 2 };",
        "const N = 4; struct s { int a[N]; opaque d<N>; };", "typedef opaque v[n];", "struct s { unsigned int a<_>; };",
        "const X = 1; union u switch (int k) { case X: int a; };", "struct a { int b; }; typedef a c<N>;",
        "struct s { int int32_t; };", "struct s { int u32; };", "struct s { int bool; };", "struct s { int *hyper_; int *u64; };",
        "union u switch (int k) { case 1: int xs<>; };", "union u switch (int k) { case 1: int xs[2]; };",
        "union u switch (int k) { case 1: int *p; };", "union u switch (int k) { case 1: int u32; };",
        "union u switch (int k) { default: int xs<3>; };",
        "struct s { string s[5]; };", "typedef string ts[5];", "const N = 5; struct s { string s[N]; };",
        "typedef int a; typedef hyper a;", "struct a { int x; }; struct a { hyper y; };",
        "struct s { int a[X]; };", "const X = 0x10; struct s { int a[X]; };", "struct s { unknown_t a; unknown_t b<>; unknown_t *c; };",
        "union u switch (float f) { case 1: void; };", "union u switch (string s) { default: void; };", "union u switch (opaque o) { default: void; };",
        "union u switch (nosuch n) { case 1: void; };", "union u switch (int k) { default: void; case 1: int x; };",
        "union u switch (int k) { default: int a; default: int b; };", "union u switch (int k) { };",
        "union u switch (int k) { case 1: case 2: };", "union u switch (int k) { case X: void; };",
        "struct s { };", "enum e { A = B };", "enum e { A = 1 B = 2 };", "typedef int u32;", "typedef opaque o;", "typedef opaque o<>; typedef o p<>;",
        "struct s { opaque *o; };", "struct s { string *o; };", "struct s { int *o; };", "struct s { int type; type x; };",
        "", " ", "/* */", "//", "// only", "struct", "struct s", "struct s {", "struct s { int a; }", "enum e { A = 1, };", "const = 1;",
        "struct s { unsigned /*c*/ int x; };", "struct s { int/*c*/x; };", "typedef int a<4294967296>;", "typedef int a[4294967295];" if False else "typedef int a[3];",
        "struct s { int a[0]; };", "struct s { opaque a[0]; opaque b<0>; string c<0>; };", "const A = B; const B = A; struct s { int x[A]; };",
        "const A = A; struct s { int x<A>; };", "const A = B; const B = C; const C = B; struct s { opaque o<A>; };",
        "const A = B; const B = 3; typedef opaque t[A]; struct s { t x; int y[B]; };", "const A = A; typedef int ta<A>;",
        "const A = A; union u switch (int k) { case A: void; };", "const A = B; const B = A; enum e { M = A };",
        "struct s { int a<>; };", "typedef uint32_t bitmap4<>;", "typedef string name<>;", "struct 1abc { int 2x; };", "const 1 = 2;",
        "struct é { int a; };", "struct s { int a; }; \x00", "struct s\r\n{\r\nint a;\r\n};\r\n", "struct s { int a; };;",
        # RFC 4506 forms outside fastxdr's grammar (must be Err), and forms one rule accepts in a position another does
        "typedef int *p;", "typedef stringentry *stringlist;", "typedef opaque *o<>;", "typedef int *p[2];",
        "struct s { void; };", "union u switch (int k) { case 1: void x; };", "struct s { enum { A = 1 } e; };",
        "struct s { struct { int a; } inner; };", "typedef struct { int a; } t;", "typedef enum { A = 1 } e;",
        "typedef union switch (int k) { case 1: void; } u;", "const A = -1;", "const A = 0x;", "enum e { A = 1, B };", "enum e { };",
        "struct s { int a, b; };", "struct s { unsigned x; };", "struct s { unsigned x<>; unsigned *y; };", "struct s { quadruple q; bool b; };",
        "union u switch (int *k) { case 1: void; };", "union u switch (int k[2]) { case 1: void; };", "union u switch (unsigned k) { case 1: void; };",
        "program P { version V { void F(void) = 1; } = 1; } = 1;", "struct s { int *a<>; };", "struct s { int *a[2]; };",
        "struct s { opaque *a<4>; string *b<>; };", "union u switch (int k) { case 1: int *a<>; };", "union u switch (int k) { default: int *a; };",
        "typedef int a b;", "typedef a;", "typedef int;", "const A;", "enum e { A };", "union u switch (int) { case 1: void; };",
        "/***/ const A = 1;", "/* x **/ const A = 1; /* y */ const B = 2;", "/** doc **/ struct s { int a; }; /* c */", "const A = 1; /* unterminated",
        "const A = 1; // trailing", "/**/const A=1;/**/", "struct s { unsigned\tint a; unsigned\nhyper b; unsigned\r\nint c; };",
        "typedef unsigned\tint t; union u switch (unsigned\tint k) { case 1: void; };",
    ]
    out = list(base)
    # token-level mutations of supported-subset and of the above
    seeds = [specgen.print_spec(specgen.random_spec(random.Random(run.seed * 13 + i), 5)) for i in range(20 if run.tier == "quick" else 150)] + base
    toks = ["{", "}", ";", "<", ">", "[", "]", "*", "=", ",", ":", "(", ")", "case", "default", "void", "struct", "union", "enum",
            "typedef", "const", "switch", "int", "opaque ", "string ", "unsigned ", "0x", "0", "4294967296", "x"]
    for s in seeds:
        for _ in range(3 if run.tier == "quick" else 12):
            if not s:
                continue
            k = r.random()
            i = r.randrange(len(s))
            if k < 0.3:
                m = s[:i] + s[i + 1:]
            elif k < 0.6:
                m = s[:i] + r.choice(toks) + s[i:]
            elif k < 0.8:
                j = min(len(s), i + r.randrange(1, 6))
                m = s[:i] + s[j:]
            else:
                m = s[:i] + r.choice(toks) + s[i + r.randrange(1, 4):]
            out.append(m)
    # systematic: every single-token edit of every declaration form (quick: substitutions, deletions
    # and glued insertions; thorough: plain insertions too)
    kinds = ("sub", "del", "glue") if run.tier == "quick" else ("sub", "del", "ins", "glue", "sub2")
    edits = sorted(set(specgen.single_edits(kinds=kinds)))
    run.cov["systematic_single_token_edits"] = len(edits)
    out += edits
    return out


def check_c14(run):
    run.theorem_step(["C14"])
    texts = hostile_texts(run) + xv.harvest_specs()
    try:
        obs = xv.run_front(texts, "c14")
    except TieBroken as e:
        run.oblige("front harness runs", False, str(e))
        return
    d1 = k_front(run, obs, "c14")
    k1bad = set(n for n, _ in d1)
    # a finding's site is "<file>:<fn>"; it is matched at file granularity, and only on texts on
    # which the model panics in that file too (K1 agrees): moving a panic! into a helper function
    # is not a new violation, a panic on a text the model does not panic on is
    known_files = {}
    for f in run.known["findings"]:
        if f["id"] == "F11":
            known_files = {x.split(":")[0]: x for x in f["sites"]}
    for n, o in enumerate(obs):
        a, g = o["ast"], o["gen_default"]
        run.case(o["text"], {"text": o["text"][:100], "tree": "accepted" if o["tree"] else "rejected", "ast": a["outcome"], "generate": g["outcome"]}
                 if a["outcome"] != "ok" or g["outcome"] != "ok" else None)
        if o.get("timed_out"):
            run.violation("%s does not return within 20 s (it neither yields Ok/Err nor panics)" % a["site"].split(":", 1)[1],
                          {"spec": o["text"], "stage": a["site"]})
            continue
        run.count("grammar_" + ("accepts" if o["tree"] else "rejects"))
        run.count("generate_" + g["outcome"])
        if o["tree"] is None:
            if a["outcome"] != "err" or g["outcome"] != "err":
                run.violation("a text the grammar rejects does not yield Err (Ast::new: %s, generate: %s)" % (a["outcome"], g["outcome"]), {"spec": o["text"]})
            continue
        for what, r in (("Ast::new", a), ("generate", g)):
            if r["outcome"] == "panic":
                site = r["site"]
                if site.split(":")[0] in known_files and n not in k1bad:
                    site = known_files[site.split(":")[0]]
                    run.known_hit("F11:" + site, "F11 %s panics on grammar-valid text at %s (e.g. %r)" % (what, site, o["text"][:60]))
                else:
                    run.violation("%s panics at %s on a text the grammar accepts" % (what, site), {"spec": o["text"], "site": site, "message": r.get("msg")})
                break
    unrolled_array_probe(run)


def unrolled_array_probe(run):
    """fixed-length arrays are decoded by unrolled reads: the emitted text (and the memory generate
    needs to build it) is proportional to the declared length.  Measured on feasible lengths;
    the extreme length is run in the CLI under a 2 GiB address-space limit (finding F16)."""
    import resource
    import subprocess
    try:
        exe = build_cli(run)
    except TieBroken as e:
        run.oblige("the fastxdr binary builds from /repo", False, str(e))
        return
    d = os.path.join(xv.WORK, "runs", "c14_unroll")
    os.makedirs(d, exist_ok=True)
    sizes = {}
    for n in (1000, 100000, 1000000):
        p = os.path.join(d, "u%d.x" % n)
        open(p, "w").write("typedef float x[%d];\n" % n)
        r = subprocess.run([exe, p], stdout=subprocess.PIPE, stderr=subprocess.PIPE)
        sizes[n] = len(r.stdout) if r.returncode == 0 else -1
        run.case(("unrolled", n))
    run.cov["generated_bytes_by_fixed_length"] = sizes
    p = os.path.join(d, "huge.x")
    witness = "typedef float x[4294967295];"
    open(p, "w").write(witness + "\n")

    def limits():
        resource.setrlimit(resource.RLIMIT_AS, (2 << 30, 2 << 30))
    try:
        r = subprocess.run([exe, p], stdout=subprocess.DEVNULL, stderr=subprocess.PIPE, preexec_fn=limits, timeout=600)
        rc, err = r.returncode, r.stderr.decode("utf-8", "replace")[-300:]
    except subprocess.TimeoutExpired:
        rc, err = None, "no result within 600 s"
    run.cov["huge_fixed_array_outcome"] = {"returncode": rc, "stderr": err}
    graceful = rc is not None and rc >= 0 and rc in (0, 1) and "memory allocation" not in err and "panicked" not in err
    if not graceful:
        if any(f["id"] == "F16" for f in run.known["findings"]):
            run.known_hit("F16", "F16 generate('%s') neither returns Ok/Err nor panics within reason: fixed-length arrays are decoded by "
                                 "unrolled reads, 30 bytes of text per element -- 129 GB for this 30-byte specification; under a 2 GiB "
                                 "address space the process is killed by a failed allocation" % witness)
        else:
            run.violation("generate('%s') aborts the process (memory allocation of the unrolled decoder text fails)" % witness,
                          {"spec": witness, "returncode": rc, "stderr": err, "generated_bytes_by_fixed_length": sizes})


def check_c15(run):
    run.theorem_step(["C15"])
    try:
        exe = build_cli(run)
    except TieBroken as e:
        run.oblige("the fastxdr binary builds from /repo", False, str(e))
        return
    import subprocess
    d = os.path.join(xv.WORK, "runs", "c15")
    __import__("shutil").rmtree(d, ignore_errors=True)
    os.makedirs(d)
    good = [specgen.print_spec(specgen.random_spec(random.Random(run.seed * 3 + i), 5)) for i in range(6 if run.tier == "quick" else 40)]
    good += ["", xv.RT_SPEC, open(os.path.join(xv.REPO, "src/xdr_spec.x")).read()]
    bad = ["struct s {", "enum e { A = 1, };", "struct s { int a[X]; };"]
    obs = xv.run_front(good + bad, "c15_lib")
    files = {}
    for i, o in enumerate(obs):
        p = os.path.join(d, "f%d.x" % i)
        open(p, "w").write(o["text"])
        lib = open(o["gen_default"]["path"], "rb").read() if o["gen_default"]["outcome"] == "ok" else None
        files[p] = lib
    missing = os.path.join(d, "does_not_exist.x")
    files[missing] = None
    nonutf = os.path.join(d, "nonutf8.x")
    open(nonutf, "wb").write(b"struct s { int a; }; // \xff\xfe\n")
    files[nonutf] = None
    names = list(files)
    oks = [f for f in names if files[f] is not None]
    bads = [f for f in names if files[f] is None]
    arglists = [[]]
    arglists += [[f] for f in names]
    r = run.rng
    for _ in range(20 if run.tier == "quick" else 200):
        n = r.choice([2, 3])
        arglists.append([r.choice(oks) if r.random() < 0.7 else r.choice(bads) for _ in range(n)])
    arglists += [[oks[0], oks[0]], [bads[0], oks[0]], [oks[0], bads[1], oks[1]]]
    agree = 0
    for args in arglists:
        p = subprocess.run([exe] + args, stdout=subprocess.PIPE, stderr=subprocess.PIPE)
        run.case(tuple(args), {"args": [os.path.basename(a) for a in args], "exit": p.returncode, "stdout_bytes": len(p.stdout)})
        # the model (Cli.v), instantiated with the library's own generate
        if not args:
            want_out, want_ok = None, False
        else:
            want_out, want_ok = b"", True
            for a in args:
                if files[a] is None:
                    want_ok = False
                    break
                want_out += files[a] + b"\n"
        if not args:
            ok = p.returncode != 0 and p.stdout.startswith(b"usage: ")
        elif want_ok:
            ok = p.returncode == 0 and p.stdout == want_out
        else:
            ok = p.returncode != 0 and p.stdout == want_out and len(p.stderr) > 0
        if ok:
            agree += 1
        else:
            run.violation("the CLI does not print what the library generates / wrong exit status",
                          {"args": args, "exit": p.returncode, "stdout_len": len(p.stdout),
                           "expected_stdout_len": None if want_out is None else len(want_out), "expected_success": want_ok,
                           "stderr": p.stderr.decode("utf-8", "replace")[:300],
                           "files": {a: open(a, "rb").read().decode("utf-8", "replace") for a in args if os.path.exists(a)}})
    run.oblige("CLI correspondence: the binary built from /repo = Cli.v with the library's generate on %d argument lists" % len(arglists),
               agree == len(arglists), "")
    run.cov["argument_lists"] = len(arglists)


def check_c07(run):
    run.theorem_step(["C07"])
    C = get_corpus(run)
    if C is None:
        return
    corpus_ties(run, C, need=("k2",))
    # the escape / spelling tables against the real generator on every candidate spelling
    try:
        ok, n1, n2, detail = tables_fallback()
    except TieBroken as e:
        ok, n1, n2, detail = False, 0, 0, str(e)
    run.oblige("the tables in use (Tables.v) agree with the real generator on every candidate spelling in every position "
               "(K1 on %d, K2 on %d probe specifications)" % (n1, n2), ok, detail)
    run.cov["table_probe_specs"] = n1
    lookup = {o["index"]: o for o in C["obs"]}
    failed = dict(C["compile_failed"])
    # every specification of the corpus is in the supported subset by construction: generate must
    # return Ok and the module must compile (the Canon visitors name every documented field/variant)
    for i, (kind, text) in enumerate(C["specs"]):
        o = lookup[i]
        run.case(text, {"kind": kind, "spec": text[-200:], "generate": o["gen_default"]["outcome"]} if kind != "matrix" or i % 7 == 0 else None)
        g = o["gen_default"]
        if g["outcome"] == "panic":
            run.violation("generate panics on a supported specification", {"spec": text, "site": g.get("site")})
        elif g["outcome"] == "err":
            run.violation("generate rejects a supported specification: %s" % g.get("msg"), {"spec": text})
        elif i in failed:
            run.violation("the generated module does not compile (or does not have the documented public shape)",
                          {"spec": text, "rustc": failed[i][-2500:]})
    # the +Clone derive line and the F8 witness are compiled separately
    clone_and_f8(run, C)


def clone_and_f8(run, C):
    lookup = {o["index"]: o for o in C["obs"]}
    idx = [i for i, (k, _) in enumerate(C["specs"]) if k in ("random", "fixed") or i % 4 == 0]
    idx = [i for i in idx if lookup[i]["gen_clone"]["outcome"] == "ok" and lookup[i]["ast"]["outcome"] == "ok"]
    if run.tier == "quick":
        idx = idx[:60]
    try:
        exe, types, failed = xv.build_runner([(i, lookup[i]["gen_clone"]["path"], lookup[i]["ast"]) for i in idx], "c07_clone")
    except TieBroken as e:
        run.oblige("modules generated with #[derive(Debug, PartialEq, Clone)] compile", False, str(e))
        return
    run.cov["modules_compiled_with_clone_derive"] = len(idx) - len(failed)
    for i, msg in failed:
        run.violation("the module generated with a custom derive line does not compile", {"spec": C["specs"][i][1], "derive": xv.DERIVE_CLONE, "rustc": msg[-2500:]})
    # F8: an enum member valued by a named constant (presented by test_enum_const_string)
    spec = "const C1 = 1;\nenum thing { ONE = C1 };\n"
    o = xv.run_front([spec], "c07_f8")[0]
    try:
        exe, types, failed = xv.build_runner([(0, o["gen_default"]["path"], o["ast"])], "c07_f8")
    except TieBroken as e:
        failed = [(0, str(e))]
    run.case(spec)
    if failed:
        if any(f["id"] == "F8" for f in run.known["findings"]):
            run.known_hit("F8", "F8 'const C1 = 1; enum thing { ONE = C1 };' generates a decoder that matches a u32 const "
                                "against an i32 scrutinee and does not compile (pinned by test_enum_const_string)")
        else:
            run.violation("enum member valued by a constant does not compile", {"spec": spec, "rustc": failed[0][1][-2000:]})


CHECKS = {"C07": check_c07, "C11": check_c11, "C12": check_c12, "C13": check_c13, "C14": check_c14, "C15": check_c15, "C01": check_c01, "C02": check_c02, "C03": check_c03, "C04": check_c04, "C05": check_c05,
          "C06": check_c06, "C08": check_c08, "C09": check_c09, "C10": check_c10}


def replay(pid, path):
    """re-run one recorded case against the current /repo; exit 1 if it still fails"""
    data = json.load(open(path))
    print("replaying %s: %s" % (path, data.get("what", "")))
    still = False
    if "input_hex" in data and "spec" in data and "type" in data:
        o = xv.run_front([data["spec"]], "replay")[0]
        if o["gen_default"]["outcome"] != "ok":
            print("generate: %s" % o["gen_default"])
            return 1
        rs, types, failed = xv.build_runner([(0, o["gen_default"]["path"], o["ast"])], "replay")
        if failed:
            print("the generated module does not compile:\n" + failed[0][1][-2000:])
            return 1
        line = xv.run_runner(rs, ["0 %s %d %s" % (data["type"], int(data.get("offset", 0)), data["input_hex"])])[0]
        obs = xv.strip_alloc(line)
        print("observed : " + obs[:2000])
        if data.get("expected"):
            print("expected : " + str(data["expected"])[:2000])
            still = obs != data["expected"]
        elif data.get("expected_value"):
            print("expected value : " + str(data["expected_value"])[:2000])
            still = data["expected_value"] not in obs
        else:
            try:
                print("model    : " + xv.k3_show(o["ast"], data["type"], int(data.get("offset", 0)), data["input_hex"], "replay")[:2000])
            except TieBroken as e:
                print("model: %s" % e)
            still = obs != xv.strip_alloc(str(data.get("observed", ""))) or "PANIC" in obs or obs.startswith("ABORT")
            still = "PANIC" in obs or obs.startswith("ABORT") or xv.strip_alloc(str(data.get("observed", ""))) == obs
    elif "spec_a" in data and "spec_b" in data:
        oa, ob = xv.run_front([data["spec_a"], data["spec_b"]], "replay")
        ia, ib = items_of(oa), items_of(ob)
        print("outcomes: %s / %s; items equal: %s" % (oa["gen_default"]["outcome"], ob["gen_default"]["outcome"], ia == ib))
        still = ia != ib
    elif "args" in data:
        exe = build_cli(None)
        import subprocess
        for f, txt in data.get("files", {}).items():
            os.makedirs(os.path.dirname(f), exist_ok=True)
            open(f, "w").write(txt)
        p = subprocess.run([exe] + data["args"], stdout=subprocess.PIPE, stderr=subprocess.PIPE)
        print("exit=%d stdout=%d bytes (expected success: %s, expected stdout: %s bytes)" % (
            p.returncode, len(p.stdout), data.get("expected_success"), data.get("expected_stdout_len")))
        still = (p.returncode == 0) != bool(data.get("expected_success")) or (
            data.get("expected_stdout_len") is not None and len(p.stdout) != data["expected_stdout_len"])
    elif "spec" in data:
        o = xv.run_front([data["spec"]], "replay")[0]
        print("tree: %s  Ast::new: %s  generate: %s" % ("accepted" if o["tree"] else "rejected", o["ast"]["outcome"], o["gen_default"]["outcome"]))
        if o["ast"]["outcome"] == "ok":
            print(json.dumps({k: o["ast"][k] for k in ("constants", "types", "generics")})[:3000])
            if "expected" in data:
                print("expected: " + json.dumps(data["expected"])[:3000])
                still = any(o["ast"].get(k) != v for k, v in data["expected"].items()) if isinstance(data["expected"], dict) else (o["ast"]["generics"] != data["expected"])
        else:
            print(o["ast"])
            still = o["ast"]["outcome"] == "panic" or o["gen_default"]["outcome"] == "panic"
        if "rustc" in data:
            rs, types, failed = xv.build_runner([(0, o["gen_default"]["path"], o["ast"])], "replay") if o["gen_default"]["outcome"] == "ok" else (None, None, [(0, "no output")])
            still = bool(failed)
            if failed:
                print(failed[0][1][-1500:])
    else:
        print(json.dumps(data, indent=1)[:4000])
        still = True
    print("STILL FAILING" if still else "no longer failing")
    return 1 if still else 0


def setup():
    t = time.time()
    xv.build_front()
    exe, _, _ = xv.build_runner([], "setup")
    r = xv.coq_make()
    if r.returncode != 0:
        print(r.stdout[-3000:])
        return 1
    # warm the shared decoder corpus of the quick tier (cached per source hash)
    try:
        corpus_mod.build("quick", int(os.environ.get("VERIF_SEED", "1")))
        build_cli(None)
    except Exception as e:  # the checks themselves report what is wrong
        print("corpus warm-up: %s" % str(e)[:500])
    print("setup done in %.0fs" % (time.time() - t))
    return 0


def main(argv):
    if not argv:
        print(__doc__)
        return 2
    if argv[0] == "setup":
        return setup()
    pid = argv[0]
    tier = os.environ.get("VERIF_TIER", "quick")
    if "--tier" in argv:
        tier = argv[argv.index("--tier") + 1]
    if "--replay" in argv:
        return replay(pid, argv[argv.index("--replay") + 1])
    seed = int(os.environ.get("VERIF_SEED", "1"))
    run = Run(pid, tier, seed)
    try:
        CHECKS[pid](run)
    except TieBroken as e:
        run.oblige("machinery", False, str(e))
    except Exception:  # never crash without a verdict
        import traceback
        run.oblige("the check ran to completion", False, traceback.format_exc()[-3000:])
    return run.finish()
