"""The per-property checks.  Each check: (1) theorem step -- the property's theorem file is
rebuilt against the regenerated tables/grammar and its assumptions are audited; (2) the
correspondence checks the theorems depend on; (3) the property-level search on the real
code; (4) verdict and evidence."""
import json
import os
import random
import re
import struct
import sys
import time

import xv
from xv import TieBroken, log

ALLOWED_AXIOMS = set()      # every property theorem is closed under the global context
FORBIDDEN = re.compile(r'\b(Admitted|admit|Axiom|Axioms|Parameter|Parameters|Conjecture|Hypothesis|'
                       r'Unset\s+Guard|bypass_check|type-in-type|impredicative-set|Admit\s+Obligations)\b')


class Run:
    def __init__(self, pid, tier, seed):
        self.pid, self.tier, self.seed = pid, tier, seed
        self.t0 = time.time()
        self.rng = random.Random(seed * 1000003 + int(pid[1:]))
        self.obligations = []     # (name, ok, detail)
        self.broken = []          # names of theorems / ties that no longer check
        self.violations = []      # (replay path, no_failing_input)
        self.known_hits = {}      # finding id -> description
        self.samples = []
        self.evaluations = 0
        self.distinct = set()
        self.cov = {}
        self.theorems = []
        self.assumptions = []
        self.replay_n = 0
        self.known = load_known()

    # ----- obligations -----
    def oblige(self, name, ok, detail=""):
        self.obligations.append((name, bool(ok), detail))
        if not ok:
            self.broken.append((name, detail))
            log("BROKEN %s: %s" % (name, detail[:2000]))

    def count(self, key, n=1):
        self.cov[key] = self.cov.get(key, 0) + n

    def case(self, sig, sample=None):
        """account for one explored case; sig identifies it for distinctness"""
        self.evaluations += 1
        self.distinct.add(sig)
        if sample is not None and len(self.samples) < 12:
            self.samples.append(sample)

    # ----- theorem step -----
    def theorem_step(self, props):
        """rebuild the development against the regenerated data files; compile the property's
        theorem file(s) and audit Print Assumptions; grep for forbidden vernacular."""
        try:
            r = xv.coq_make()
        except TieBroken as e:
            self.oblige("translators", False, str(e))
            return
        built = r.returncode == 0
        if not built:
            # which file failed?
            m = re.findall(r'File "\./(theories/[^"]+)", line (\d+)', r.stdout)
            self.cov["coq_build_failure"] = r.stdout[-1500:]
        for prop in props:
            vfile = os.path.join(xv.COQ, "theories/Props/%s.v" % prop)
            src = open(vfile).read()
            names = re.findall(r'^\s*(?:Theorem|Lemma|Corollary)\s+(\w+)', src, re.M)
            n_print = len(re.findall(r'^\s*Print Assumptions', src, re.M))
            os.makedirs(os.path.join(xv.WORK, "cases", "audit"), exist_ok=True)
            out = xv.sh(["coqc", "-noglob"] + xv.COQ_ARGS + ["-o", os.path.join(xv.WORK, "cases", "audit", prop + ".vo"), vfile],
                        cwd=xv.COQ, timeout=1800)
            if out.returncode != 0:
                m = re.search(r'line (\d+)', out.stdout)
                failing = "?"
                if m:
                    ln = int(m.group(1))
                    before = src.split("\n")[:ln]
                    for l in reversed(before):
                        mm = re.match(r'\s*(?:Theorem|Lemma|Corollary|Example)\s+(\w+)', l)
                        if mm:
                            failing = mm.group(1)
                            break
                for nm in names:
                    self.oblige("theorem " + nm, False if nm == failing or failing == "?" else True,
                                "does not check: " + out.stdout[-1200:] if nm == failing or failing == "?" else "")
                if failing not in names:
                    self.oblige("theorem file %s (%s)" % (prop, failing), False, out.stdout[-1200:])
                continue
            closed = len(re.findall(r'Closed under the global context', out.stdout))
            axioms = re.findall(r'^\s*([\w.]+)\s*:', "\n".join(
                blk for blk in re.findall(r'Axioms:\n((?:.+\n?)*?)(?=\n\S|\Z)', out.stdout)), re.M)
            bad_ax = [a for a in axioms if a not in ALLOWED_AXIOMS]
            for nm in names:
                self.oblige("theorem " + nm, True)
                self.theorems.append(nm)
            self.oblige("assumptions of %s (%d theorems, %d closed)" % (prop, n_print, closed),
                        closed == n_print and not bad_ax and n_print >= len(names),
                        "axioms: %s" % bad_ax)
        # forbidden vernacular anywhere in the development
        hits = []
        for root, _, files in os.walk(os.path.join(xv.COQ, "theories")):
            for f in files:
                if f.endswith(".v"):
                    txt = open(os.path.join(root, f)).read()
                    txt = re.sub(r'\(\*.*?\*\)', '', txt, flags=re.S)
                    for m in FORBIDDEN.finditer(txt):
                        hits.append("%s: %s" % (f, m.group(0)))
        self.oblige("no Admitted/Axiom/Parameter/guard switches in the development", not hits, "; ".join(hits[:10]))
        self.oblige("full .vo build of the development", built, self.cov.get("coq_build_failure", ""))

    # ----- verdicts -----
    def replay_path(self):
        d = os.path.join(xv.VERIF, "replays")
        os.makedirs(d, exist_ok=True)
        self.replay_n += 1
        return os.path.join(d, "%s_%s_%d.json" % (self.pid, self.tier, self.replay_n))

    def violation(self, what, data, no_input=False):
        if len(self.violations) >= 5:
            return
        p = self.replay_path()
        data = dict(data)
        data.update({"property": self.pid, "what": what,
                     "rerun": "./verify %s --replay %s" % (self.pid, p)})
        with open(p, "w") as f:
            json.dump(data, f, indent=1)
        self.violations.append((p, no_input, what))

    def known_hit(self, fid, what):
        self.known_hits[fid] = what

    def finish(self):
        # a broken proof/tie with no concrete failing input is still a violation
        if self.broken and not self.violations:
            self.violation("proof or correspondence no longer checks: " +
                           "; ".join(n for n, _ in self.broken[:6]),
                           {"broken": [{"name": n, "detail": d[:3000]} for n, d in self.broken[:10]]},
                           no_input=True)
        for fid, what in sorted(self.known_hits.items()):
            print("KNOWN-FINDING: property=%s %s" % (self.pid, what))
        for p, no_input, what in self.violations:
            print("VIOLATION property=%s replay=%s%s" % (self.pid, p, " no-failing-input-found" if no_input else ""))
            log("  " + what[:500])
        n_ob = len(self.obligations)
        n_ok = sum(1 for _, ok, _ in self.obligations if ok)
        cov = {
            "obligations": n_ob,
            "discharged": n_ok,
            "checker_cmd": "cd /verif/coq && coq_makefile -f _CoqProject -o Makefile && make -j16  "
                           "(then coqc on theories/Props/%s.v for Print Assumptions; correspondence: "
                           "coqc -noglob on generated work/cases/*.v, vm_compute)" % self.pid,
            "trusted_base": TRUSTED_BASE,
            "evaluations": max(1, self.evaluations),
            "distinct_nontrivial": len(self.distinct),
            "rule": RULES.get(self.pid, ""),
            "samples": self.samples[:12] or ["(none)"],
            "theorems": self.theorems,
            "obligation_list": [{"name": n, "ok": ok} for n, ok, _ in self.obligations],
            "known_findings_reproduced": sorted(self.known_hits),
        }
        cov.update(self.cov)
        ev = {
            "property_id": self.pid, "tier": self.tier, "seed": self.seed, "level": "proof",
            "coverage": cov, "assumptions": self.assumptions or ASSUMPTIONS.get(self.pid, []),
            "wall_s": round(time.time() - self.t0, 1), "violations": len(self.violations),
        }
        os.makedirs(os.path.join(xv.VERIF, "evidence"), exist_ok=True)
        with open(os.path.join(xv.VERIF, "evidence", self.pid + ".json"), "w") as f:
            json.dump(ev, f, indent=1)
        return 1 if self.violations else 0


TRUSTED_BASE = [
    "Coq 8.16.1 kernel (coqc), including vm_compute (used in reflection proofs and in every correspondence evaluation); native_compute is not used",
    "axioms: none -- every theorem in theories/Props is 'Closed under the global context' (audited on every run)",
    "translators tools/gen_tables.py (keyword/spelling/template tables) and tools/gen_grammar.py (xdr.pest -> Grammar.v)",
    "harness dumpers (harness/front, harness/runner) that print real ASTs, generated text and run-time observations, and tools/coqterm.py that prints them as Coq terms",
    "hand-written model of header.rs (Runtime.v), of the emitters (Emit.v, Render.v), of the semantics of the emitted Rust fragment (Sem.v), of the walker/indexes and of pest: tied to /repo by the correspondence checks K1/K2/K3, which are sampling",
    "rustc/cargo, the bytes crate and the OS for what the harness observes",
]
RULES = {}
ASSUMPTIONS = {}


def load_known():
    p = os.path.join(xv.VERIF, "known_findings.json")
    if os.path.exists(p):
        return json.load(open(p))
    return {"findings": [], "fixed": []}


# =======================================================================================
# C10 -- runtime readers and size helpers

RULES["C10"] = ("exhaustive grid: every reader x payload length n in 0..=N x remaining r in 0..=N+8 x "
                "max in {None, 0..=N+1}; boolean reader on boundary words and a seeded sample of u32; "
                "blanket WireSize impls on std containers of 0..=N elements; a case is distinct by "
                "(reader, n, r, max) and non-trivial when r>0 or it is a size query")
ASSUMPTIONS["C10"] = ["Runtime.v is a hand model of header.rs, tied by K3 on the grid",
                      "usize is 64 bits"]


def pat(r, salt=1):
    return bytes(((i * 37 + salt) % 251) + 1 for i in range(r))


def oracle_c10(kind, hexin):
    """the contract of C10, written independently of the model: expected line"""
    b = bytes.fromhex(hexin)
    r = len(b)
    p = kind.split(":")

    def ru4(n):
        return (n + 3) // 4 * 4

    def mx(s):
        return None if s == "-" else int(s)
    k = p[0]
    fixed = {"@u32": (4, ">I", "u32"), "@i32": (4, ">i", "i32"), "@u64": (8, ">Q", "u64"),
             "@i64": (8, ">q", "i64"), "@f32": (4, ">I", "f32"), "@f64": (8, ">Q", "f64")}
    if k in fixed:
        sz, fmt, nm = fixed[k]
        if r < sz:
            return "RD ERR InvalidLength"
        return "RD OK %s:%d consumed=%d wsz=%d" % (nm, struct.unpack(fmt, b[:sz])[0], sz, sz)
    if k == "@bool":
        if r < 4:
            return "RD ERR InvalidLength"
        w = struct.unpack(">I", b[:4])[0]
        if w > 1:
            return "RD ERR InvalidBoolean"
        return "RD OK bool:%d consumed=4 wsz=4" % w
    if k == "@bytes":
        n = int(p[1])
        if r < ru4(n):
            return "RD ERR InvalidLength"
        return "RD OK bytes@%s:%s consumed=%d wsz=%d" % ("E" if n == 0 else "0", b[:n].hex(), ru4(n), n)
    if k in ("@varbytes", "@string"):
        m = mx(p[1])
        if r < 4:
            return "RD ERR InvalidLength"
        n = struct.unpack(">I", b[:4])[0]
        if (m is not None and n > m) or r - 4 < ru4(n):
            return "RD ERR InvalidLength"
        d = b[4:4 + n]
        if k == "@varbytes":
            return "RD OK bytes@%s:%s consumed=%d wsz=%d" % ("E" if n == 0 else "4", d.hex(), 4 + ru4(n), n)
        try:
            d.decode("utf-8")
        except UnicodeDecodeError:
            return "RD ERR NonUtf8String"
        return "RD OK str:%s consumed=%d wsz=%d" % (d.hex(), 4 + ru4(n), 4 + ru4(n))
    if k == "@vararray" and p[1] == "rt_elem":
        m = mx(p[2])
        if r < 4:
            return "RD ERR InvalidLength"
        n = struct.unpack(">I", b[:4])[0]
        if (m is not None and n > m) or r - 4 < 4 * n:
            return "RD ERR InvalidLength"
        vals = ["S:rt_elem{u32:%d}" % struct.unpack(">I", b[4 + 4 * i:8 + 4 * i])[0] for i in range(n)]
        return "RD OK vec[%s] consumed=%d wsz=%d" % (",".join(vals), 4 + 4 * n, 4 + 4 * n)
    if k == "@wsz":
        n = int(p[2])
        t = {"u32": 4, "i32": 4, "f32": 4, "bool": 4, "u64": 8, "i64": 8, "f64": 8,
             "vec_u32": 4 + 4 * n, "vec_u64": 4 + 8 * n, "slice_u32": 4 * n, "slice_u8": ru4(n),
             "opt_none": 4, "opt_some_u64": 12, "box_u32": 4, "string": 4 + ru4(n), "bytes": n,
             "vec_string": 4 + 4 + ru4(n) + 4 + ru4(n + 1)}
        return "W %d" % t[p[1]]
    return None


def c10_cases(run, N):
    cases = []
    for rdr in ["@u32", "@u64", "@i32", "@i64", "@f32", "@f64", "@bool"]:
        for r in range(0, 13):
            for salt in (1, 130):
                cases.append((rdr, r % 3, pat(r, salt).hex()))
    words = [0, 1, 2, 3, 255, 256, 0x7fffffff, 0x80000000, 0xfffffffe, 0xffffffff, 0x01000000, 0x00010000]
    words += [run.rng.getrandbits(32) for _ in range(200 if run.tier == "quick" else 20000)]
    for w in words:
        cases.append(("@bool", 0, (struct.pack(">I", w) + b"\x09").hex()))
    for n in range(N + 1):
        for r in range(N + 9):
            cases.append(("@bytes:%d" % n, (n + r) % 4, pat(r).hex()))
            for m in ["-"] + [str(x) for x in range(N + 2)]:
                cases.append(("@varbytes:%s" % m, (n + r) % 4, (struct.pack(">I", n) + pat(r)).hex()))
                cases.append(("@string:%s" % m, 0, (struct.pack(">I", n) + bytes(65 + (i % 26) for i in range(r))).hex()))
    # non-UTF-8 payloads: every 1-2 byte sequence class and structured longer ones
    bad = [b"\x80", b"\xc0\x80", b"\xc2", b"\xe0\x80\x80", b"\xed\xa0\x80", b"\xf4\x90\x80\x80",
           b"\xf5\x80\x80\x80", b"\xff", b"a\xc3", b"\xc3\xa9", b"\xe2\x82\xac", b"\xf0\x9f\x98\x80",
           b"\xef\xbf\xbd", b"\xed\x9f\xbf", b"\xee\x80\x80", b"\xf0\x8f\xbf\xbf", b"\xf4\x8f\xbf\xbf"]
    if run.tier == "thorough":
        bad += [bytes([a, b]) for a in range(0x70, 0x100, 3) for b in range(0x70, 0x100, 5)]
    for d in bad:
        enc = struct.pack(">I", len(d)) + d + b"\0" * ((4 - len(d) % 4) % 4)
        cases.append(("@string:-", 0, enc.hex()))
    for n in range(0, 5):
        for r in range(0, 4 * n + 10):
            for m in ["-", "0", "2", "3", "4"]:
                for el in ["rt_elem", "rt_velem", "rt_oelem"]:
                    body = bytes(((i % 7 == 3) * (1 + i % 3)) for i in range(r))
                    cases.append(("@vararray:%s:%s" % (el, m), 0, (struct.pack(">I", n) + body).hex()))
    for w in [0xffffffff, 0x80000000, 0x10000, 0x7fffffff]:
        for el in ["rt_elem", "rt_velem", "rt_oelem"]:
            cases.append(("@vararray:%s:-" % el, 0, (struct.pack(">I", w) + pat(6)).hex()))
        cases.append(("@varbytes:-", 0, (struct.pack(">I", w) + pat(6)).hex()))
        cases.append(("@string:-", 0, (struct.pack(">I", w) + pat(6)).hex()))
    for k in ["u32", "i32", "f32", "bool", "u64", "i64", "f64", "vec_u32", "vec_u64", "slice_u32",
              "slice_u8", "opt_none", "opt_some_u64", "box_u32", "string", "bytes", "vec_string"]:
        for n in range(0, N + 1):
            cases.append(("@wsz:%s:%d" % (k, n), 0, ""))
    return cases


def check_c10(run):
    run.theorem_step(["C10"])
    N = 8 if run.tier == "quick" else 24
    try:
        exe, _, _ = xv.build_runner([], "c10")
        rt = xv.run_front([xv.RT_SPEC], "c10_rtast")[0]
    except TieBroken as e:
        run.oblige("K3 harness builds against /repo", False, str(e))
        return
    cases = c10_cases(run, N)
    lines = xv.run_runner(exe, ["0 %s %d %s" % c for c in cases])
    n, dis = xv.k3([(rt["ast"], [(k, o, h, l) for (k, o, h), l in zip(cases, lines)])], "c10")
    run.oblige("K3 reader grid: model agrees with header.rs on %d calls" % n, not dis,
               "; ".join("%s off=%d %s -> %s" % (cases[ci][0], cases[ci][1], cases[ci][2], lines[ci]) for _, ci in dis[:5]))
    run.cov["k3_cases"] = n
    run.cov["k3_disagreements"] = len(dis)
    run.cov["grid_N"] = N
    run.cov["exhaustive"] = True
    # property-level search: the contract itself, on every grid case
    kinds = {}
    for (k, o, h), l in zip(cases, lines):
        base = k.split(":")[0]
        kinds[base] = kinds.get(base, 0) + 1
        run.case((k, len(h) // 2), {"call": k, "offset": o, "input": h[:64], "observed": xv.strip_alloc(l)}
                 if len(run.samples) < 10 and (len(h) > 8) else None)
        if l.startswith("ABORT") or " PANIC " in " " + l:
            run.violation("reader %s panics/aborts: %s" % (k, l), {"call": k, "offset": o, "input": h, "observed": l})
            continue
        exp = oracle_c10(k, h)
        if exp is None:
            continue
        if o and "bytes@" in exp and "bytes@E" not in exp:
            exp = re.sub(r'bytes@(\d+)', lambda m: "bytes@%d" % (int(m.group(1)) + o), exp)
        if xv.strip_alloc(l) != exp:
            run.violation("reader %s breaks its contract: expected '%s', observed '%s'" % (k, exp, xv.strip_alloc(l)),
                          {"call": k, "offset": o, "input": h, "expected": exp, "observed": xv.strip_alloc(l)})
    run.cov["calls_by_reader"] = kinds


# =======================================================================================

CHECKS = {"C10": check_c10}


def replay(pid, path):
    data = json.load(open(path))
    print(json.dumps(data, indent=1))
    return 0


def setup():
    t = time.time()
    xv.build_front()
    exe, _, _ = xv.build_runner([], "setup")
    r = xv.coq_make()
    if r.returncode != 0:
        print(r.stdout[-3000:])
        return 1
    print("setup done in %.0fs" % (time.time() - t))
    return 0


def main(argv):
    if not argv:
        print(__doc__)
        return 2
    if argv[0] == "setup":
        return setup()
    pid = argv[0]
    tier = os.environ.get("VERIF_TIER", "quick")
    if "--tier" in argv:
        tier = argv[argv.index("--tier") + 1]
    if "--replay" in argv:
        return replay(pid, argv[argv.index("--replay") + 1])
    seed = int(os.environ.get("VERIF_SEED", "1"))
    run = Run(pid, tier, seed)
    try:
        CHECKS[pid](run)
    except TieBroken as e:
        run.oblige("machinery", False, str(e))
    return run.finish()
