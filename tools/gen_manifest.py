#!/usr/bin/env python3
"""writes MANIFEST.json from the table below (kept in one place so it stays valid)"""
import json, os
V = os.path.dirname(os.path.dirname(os.path.abspath(__file__)))
CLAIMED = {
 "C10": ("Coq theorems over Runtime.v (reader contracts for all n, r, max; all 2^32 boolean words) + K3 exhaustive grid correspondence with header.rs + independent contract oracle",
         "theorems C10_* quantify over every buffer, length and maximum (no bound); the model of header.rs is tied to the code by running both on the exhaustive (n, r, max) grid on every run",
         "DESIGN.md section 7 C10"),
}
PENDING = {}
ALL = ["C%02d" % i for i in range(1, 16)]
checks = []
for pid in ALL:
    if pid in CLAIMED:
        tech, text, ref = CLAIMED[pid]
        checks.append({
            "property_id": pid,
            "quick_cmd": "./verify %s --tier quick" % pid,
            "thorough_cmd": "./verify %s --tier thorough" % pid,
            "evidence_file": "evidence/%s.json" % pid,
            "replay_cmd_template": "./verify %s --replay {path}" % pid,
            "engine": "coq-model",
            "level_claimed": {"category": "proof", "text": text, "design_ref": ref},
            "level_note": "Trusted: Coq 8.16.1 kernel + vm_compute; no axioms (Print Assumptions audited each run); translators (tools/gen_tables.py, tools/gen_grammar.py); the hand model is tied to /repo by sampled correspondence checks (K1 AST, K2 emitted text, K3 run-time behaviour); rustc/cargo/bytes/OS for the observations.",
            "technique": "machine-checked proof in Coq 8.16 over a hand-written executable model; " + tech,
        })
na = [{"property_id": p, "reason": PENDING.get(p, "check not registered yet (under construction in this round); nothing is claimed for it")} for p in ALL if p not in CLAIMED]
m = {
 "version": 1,
 "setup_cmd": "./verify setup",
 "hooks": {"guard": "fastxdr_verif", "enable": "RUSTFLAGS='--cfg fastxdr_verif' (set by tools/xv.py for every harness build; no source commit uses the guard: every AST field is public and the harness derives its own pest parser from /repo/src/xdr.pest)",
           "baseline_off_cmd": "cd /repo && cargo test --workspace --no-fail-fast --offline",
           "source_commits": [], "add_only": True},
 "engines": [{"name": "coq-model", "path": "coq/", "serves_properties": sorted(CLAIMED),
              "kind_free_text": "Coq 8.16 development: executable model (theories/Model), proofs (theories/Proofs), property statements (theories/Props); driver ./verify, harnesses under harness/, translators and generators under tools/"}],
 "checks": checks,
 "notes": "fix: commits in /repo (genuine defects repaired): see known_findings.json 'fixed' entries and DESIGN.md section 6.",
 "not_applicable": na,
}
json.dump(m, open(os.path.join(V, "MANIFEST.json"), "w"), indent=1)
print("claimed:", sorted(CLAIMED))
