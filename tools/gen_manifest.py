#!/usr/bin/env python3
"""writes MANIFEST.json from the table below (kept in one place so it stays valid)"""
import json, os
V = os.path.dirname(os.path.dirname(os.path.abspath(__file__)))
T_DEC = "K2 (rendered model text = real generate() text), K3 (model semantics = compiled decoders on generated values, every truncation, boundary words, random words), K4 (Spec.v = generator mirror); property-level search on the real decoders"
CLAIMED = {
 "C01": ("Coq: C01_roundtrip -- for every specification satisfying the decidable hypothesis sup_b, every declared type, every well-typed value with size-exact array elements, every fuel >= need x, offset, suffix: the emitted decoder returns exactly the value and leaves the cursor after its encoding (mutual induction over the typing derivation; union arm selection by the emitted match patterns proved in UnionProofs); C01_refuted_F1; sup_b evaluated on every corpus specification; " + T_DEC,
         "compiler-correctness theorem about the model of the emitters + header.rs; the model is tied to the real generator text (K2) and to the compiled decoders (K3) on every run, and the theorem's hypothesis is measured on the corpus", "DESIGN.md 0 and 7 C01"),
 "C02": ("Coq: C02_size_characterised -- for all specifications satisfying wf_size and all well-typed values, emitted wire_size() + 4*nF1 = |RFC 4506 encoding| (induction over the typing derivation), C02_exact, C02_wsz_mult4, C02_refuted_F1; C02_decoder_consumes_wire_size -- on F1-free specifications (sup4_b, nof1_b) every successful decode of ANY input consumed exactly wire_size() of the returned value; " + T_DEC,
         "the universal statement is a theorem about the model of the emitters and of header.rs; the model is tied to the code on every run", "DESIGN.md 7 C02"),
 "C03": ("Coq: C03_frame for every emitted module, type and input; C03_local(_decidable) -- for EVERY accepted input the same consumed bytes followed by any other suffix, at any other offset / allocation, decode to the same value (views relocated), consume the same bytes and leave the suffix untouched (two-run simulation; hypothesis local_from_b: reachable types F1-free); families are two renderings of one IR body (K2), both compiled families run on every input (K3); every accepted hostile input re-decoded in another context (ctx2 twins)",
         "frame and locality theorems hold for all inputs, canonical or not; the two families being one body is K2", "DESIGN.md 7 C03"),
 "C04": ("Coq: C04_no_panic (sup4_b => never Panic on any byte string, any fuel; Ok has the declared shape), C04_terminates / C04_terminates_decidable (term_b => with fuel (remaining/4)*(K+1)+K+1 never Fuel: every call cycle reads a word, every loop iteration steps over a word), reader totality, cursor stays inside; K3 on every truncation, boundary / random / huge / wrapping words; deep optional chains (F9)",
         "no-panic and termination theorems for every input under decidable hypotheses evaluated on the corpus; native stack depth (F9) and allocator failure are outside a Gallina model", "DESIGN.md 7 C04"),
 "C05": ("Coq: C05_no_prefix -- for every specification satisfying sup, every well-typed value, every strict byte-granular prefix of its encoding is rejected with InvalidLength (mutual induction using the C01 round trip for the complete parts); count > max and count > bytes present are InvalidLength, count = max accepted, for all buffers (reader level); C05_refuted_F3; C05_bound_carried / C05_position_over_max (the emitted reader call carries the declared maximum, literal or constant, and a count above it is InvalidLength at that position); K3 + exhaustive prefixes / over-max values as search",
         "universal theorems over the model tied by K2/K3; emitted bounds tied by K2 on every bounded declarator form", "DESIGN.md 0 and 7 C05"),
 "C06": ("Coq: invalid boolean / option marker / enum word / non-UTF-8 rejected with the right Error for every word; union arm selection PARTIAL (semantics of emitted patterns tied by K2+K3, searched on every declared label)",
         "theorems over all 2^32 words (statements over N, not sweeps)", "DESIGN.md 7 C06"),
 "C07": ("Coq: every Rust keyword escaped by both regenerated tables, tables agree, C07_safe_name_never_a_keyword (for EVERY name the printed spelling is not a keyword, true/false for TRUE/FALSE aside), C07_every_type_has_its_impls; tables vs the real generator on every candidate spelling in every position (948 probe specifications); rustc is the oracle: every corpus module compiled with both derive lines plus visitors naming every documented field/variant; wf_module PARTIAL",
         "compilation is observed, not proved; the keyword lemma is re-proved against the regenerated tables on every run", "DESIGN.md 7 C07"),
 "C08": ("Coq: C08_views for every emitted module, type and input: every non-empty opaque leaf is a view into the input at the offset where its bytes lie; K3 compares real pointer offsets",
         "theorem holds for all inputs and all specifications; pointer identity is observed by the harness", "DESIGN.md 7 C08"),
 "C09": ("Coq: C09_requests_bounded for every emitted module, type, input and outcome: each allocator request is at most the bytes remaining; C09_total_linear(_decidable) -- under lin_b (F1-free, positive elements, no counted array nested in its own element type) the SUM of all requests is <= (array nesting depth + 1) * bytes in the buffer, for every input and outcome; C09_refuted_linear_F15 (self-nested counted arrays: the SUM is quadratic, known finding F15); K3a: real allocator bytes = model ledger; hostile, wrapping and nested counts under a counting allocator",
         "per-request bound and linear total are theorems for all inputs (the total under the decidable hypothesis lin_b, evaluated on the corpus); refuted on the F15 class; bytes per element are outside the model (K3a)", "DESIGN.md 7 C09"),
 "C10": ("Coq theorems over Runtime.v (reader contracts for all n, r, max; all 2^32 boolean words) + K3 exhaustive grid correspondence with header.rs + independent contract oracle",
         "theorems quantify over every buffer, length and maximum; the model of header.rs is tied to the code on the exhaustive (n, r, max) grid", "DESIGN.md 7 C10"),
 "C11": ("Coq: C11_ast_reorder / C11_spec_reorder -- for EVERY permutation of the declarations (distinct names) the constant and type indexes are the very same key-sorted lists and the generic set is the same (Reorder.v; via C13 and C12_walk); C11_layout_independent(_full) (TextProofs.v/TextTie.v): any two layouts -- white space and comments between the tokens, unboundedly -- of one declaration list are accepted by the PEG of the regenerated grammar and have the same Ast, its decidable premise evaluated on every (base, layout) pair the check compares; source scan for nondeterminism; real generator in fresh processes / shared Generator; random layouts, every trivia class at every token gap, cross-reference families in all orders, compared item by item",
         "order independence (tree level) and layout independence (text level, model PEG on the regenerated grammar) are theorems; that pest behaves like the model PEG (K1) and process-level determinism are observed", "DESIGN.md 0.8, 7 C11"),
 "C12": ("Coq: C12_walk / C12_ast / C12_source_tie -- for EVERY declaration list (any number of items, fields, fall-through groups) the walker yields exactly the declared items and every type/constant/enum member is retrievable by name, generics = opaque reachability; C12_text_to_tree / C12_text_to_ast (TextProofs.v: induction over the declaration list against the PEG interpreter on the regenerated grammar) -- EVERY text that reads as a declaration list (any layout, comments included) is accepted whole, its tree erases to tree_of ds and its Ast is the Ast of the declared items; reads_as evaluated on every K5 text; K1 (model front end = real pest + Ast::new), K5 (Source.tree_of = erased parse tree and Ast of item_of = real Ast per generated list); independent reference AST from a random declaration model under random layout",
         "text-to-Ast theorem for all layouts of all declaration lists of the modelled surface syntax; that pest and the real walker behave like their models is checked per spec by K1/K5", "DESIGN.md 0.8, 7 C12"),
 "C13": ("Coq: C13_reach -- for ANY item list, name in generic index iff opaque reachable (soundness by invariant, completeness by closedness of the fixpoint), C13_fuel, C13_emitted_*; exhaustive graphs k<=2, sampled k=3, chains of depth >= 12",
         "full theorem for all dependency graphs, orders, cycles; model tied by K1 on Ast::generics()", "DESIGN.md 7 C13"),
 "C14": ("Coq: C14_every_accepted_text / C14_every_text (Derive.v: the PEG interpreter returns derivations, for any grammar; FrontAll.v: on every derivation of item of the regenerated grammar the walker, constructors and constant index return Ok or panic at one of four recorded sites, never at the unreachable!/unwrap sites); C14_front_total (EVERY declaration list meeting decl_ok: Ast::new is Ok or panics at the enum-value / duplicate-constant sites), C14_emitters_panic_site (every Ast: the emitters' only panic), C14_reject (every text the regenerated grammar rejects => Err), constructor totality; K1/K2 outcome classes and panic sites (file granularity) on hostile and mutated texts",
         "for every text the model of Ast::new / generate returns Ok, Err or a recorded panic (theorem); that pest, the walker and the emitters behave like their models is K1/K2; native resource exhaustion (F16) by probe", "DESIGN.md 0.8, 7 C14"),
 "C15": ("Coq: C15_* -- main.rs as a function of args, file system and generate: usage/exit 1, all-ok output in order/exit 0, first failure prefix/non-zero; binary built from /repo run on argument lists",
         "theorem for every file system and library behaviour; the binary is compared with the model instantiated with the library's own generate", "DESIGN.md 7 C15"),
}
PENDING = {}
ALL = ["C%02d" % i for i in range(1, 16)]
checks = []
for pid in ALL:
    if pid in CLAIMED:
        tech, text, ref = CLAIMED[pid]
        checks.append({
            "property_id": pid,
            "quick_cmd": "./verify %s --tier quick" % pid,
            "thorough_cmd": "./verify %s --tier thorough" % pid,
            "evidence_file": "evidence/%s.json" % pid,
            "replay_cmd_template": "./verify %s --replay {path}" % pid,
            "engine": "coq-model",
            "level_claimed": {"category": "proof", "text": text, "design_ref": ref},
            "level_note": "Trusted: Coq 8.16.1 kernel + vm_compute; no axioms (Print Assumptions audited each run); translators (tools/gen_tables.py, tools/gen_grammar.py); the hand model is tied to /repo by sampled correspondence checks (K1 AST, K2 emitted text, K3 run-time behaviour); rustc/cargo/bytes/OS for the observations.",
            "technique": "machine-checked proof in Coq 8.16 over a hand-written executable model; " + tech,
        })
na = [{"property_id": p, "reason": PENDING.get(p, "check not registered yet (under construction in this round); nothing is claimed for it")} for p in ALL if p not in CLAIMED]
m = {
 "version": 1,
 "setup_cmd": "./verify setup",
 "hooks": {"guard": "fastxdr_verif", "enable": "RUSTFLAGS='--cfg fastxdr_verif' (set by tools/xv.py for every harness build; no source commit uses the guard: every AST field is public and the harness derives its own pest parser from /repo/src/xdr.pest)",
           "baseline_off_cmd": "cd /repo && cargo test --workspace --no-fail-fast --offline",
           "source_commits": [], "add_only": True},
 "engines": [{"name": "coq-model", "path": "coq/", "serves_properties": sorted(CLAIMED),
              "kind_free_text": "Coq 8.16 development: executable model (theories/Model), proofs (theories/Proofs), property statements (theories/Props); driver ./verify, harnesses under harness/, translators and generators under tools/"}],
 "checks": checks,
 "notes": "fix: commits in /repo (genuine defects repaired): see known_findings.json 'fixed' entries and DESIGN.md section 6.",
 "not_applicable": na,
}
json.dump(m, open(os.path.join(V, "MANIFEST.json"), "w"), indent=1)
print("claimed:", sorted(CLAIMED))
