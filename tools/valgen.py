"""Well-typed XDR values for the types of a (dumped) AST, their RFC 4506 encoding, the
canonical line the decoders are expected to print, and the same values as Coq terms of
XdrModel.Spec.  This is the Python mirror of Spec.v (enc / rv / nF1 / step_exact); every run
cross-checks the two on the generated cases."""
import sys
sys.setrecursionlimit(50000)
import struct

import coqterm as ct

PRIM = {"U32", "U64", "I32", "I64", "F32", "F64", "Bool"}


def ru4(n):
    return (n + 3) // 4 * 4


def lit_value(s):
    try:
        if s.startswith("0x") and len(s) > 2:
            return int(s[2:], 16)
        if s.isdigit():
            v = int(s)
            return v if v < 2 ** 32 else None
    except ValueError:
        pass
    return None


class Ctx:
    def __init__(self, ast):
        self.ast = ast
        self.types = dict((k, v) for k, v in ast["types"])
        self.consts = dict((k, v) for k, v in ast["constants"])

    def size_val(self, s):
        if "Known" in s:
            return s["Known"]
        c = self.consts.get(s["Constant"])
        if c is None or "const" not in c or not c["const"].isdigit():
            return None
        v = int(c["const"])
        return v if v < 2 ** 32 else None

    def max_val(self, s):
        return 2 ** 32 - 1 if s is None else self.size_val(s)


class Unsupported(Exception):
    pass


def gen_basic(cx, t, rng, depth, sizes):
    if isinstance(t, dict):
        return gen_named(cx, t["Ident"], rng, depth, sizes)
    r = rng
    if t == "U32":
        return ("U32", r.choice([0, 1, 2, 2 ** 31 - 1, 2 ** 31, 2 ** 32 - 1, r.getrandbits(32)]))
    if t == "I32":
        return ("I32", r.choice([0, 1, -1, 2 ** 31 - 1, -2 ** 31, r.getrandbits(32) - 2 ** 31]))
    if t == "U64":
        return ("U64", r.choice([0, 1, 2 ** 63, 2 ** 64 - 1, r.getrandbits(64)]))
    if t == "I64":
        return ("I64", r.choice([0, -1, 2 ** 63 - 1, -2 ** 63, r.getrandbits(64) - 2 ** 63]))
    if t == "F32":
        return ("F32", r.choice([0, 0x3f800000, 0x7fc00000, 0xffc00001, 0x7f800000, r.getrandbits(32)]))
    if t == "F64":
        return ("F64", r.choice([0, 0x3ff0000000000000, 0x7ff8000000000000, 0xfff0000000000000, r.getrandbits(64)]))
    if t == "Bool":
        return ("Bool", r.random() < 0.5)
    if t == "String":
        return ("String", gen_text(r, sizes(None)))
    if t == "Opaque":
        return ("OpaqueV", gen_bytes(r, sizes(None)))
    raise Unsupported(str(t))


def gen_bytes(r, n):
    return bytes(r.getrandbits(8) for _ in range(n))


def gen_text(r, n):
    out = b""
    while len(out) < n:
        rest = n - len(out)
        c = r.choice(["a", "Z", "0", " ", "é", "€", "\U0001f600", "\x00", "~"])
        e = c.encode("utf-8")
        if len(e) <= rest:
            out += e
    return out


def gen_pos(cx, a, optional, rng, depth, sizes):
    if "None" in a:
        t = a["None"]
        if optional:
            if depth <= 0 or rng.random() < 0.35:
                return ("Opt", None)
            return ("Opt", gen_basic(cx, t, rng, depth - 1, sizes))
        return gen_basic(cx, t, rng, depth, sizes)
    if "Fixed" in a:
        t, s = a["Fixed"]
        n = cx.size_val(s)
        if n is None or t == "String":
            raise Unsupported("fixed")
        if t == "Opaque":
            return ("OpaqueF", gen_bytes(rng, n))
        if n > 64:
            raise Unsupported("large fixed array")
        return ("ArrF", [gen_basic(cx, t, rng, depth - 1, sizes) for _ in range(n)])
    t, s = a["Var"]
    m = cx.max_val(s)
    if m is None:
        raise Unsupported("bound")
    if t == "Opaque":
        return ("OpaqueV", gen_bytes(rng, sizes(m)))
    if t == "String":
        return ("String", gen_text(rng, sizes(m)))
    k = min(m, rng.choice([0, 1, 2, 3]) if depth > 0 else 0)
    if m <= 4 and rng.random() < 0.4 and depth > 0:
        k = m
    return ("ArrV", [gen_basic(cx, t, rng, depth - 1, sizes) for _ in range(k)])


def label_value(cx, u, l, disc_t):
    """the discriminant xval a label stands for"""
    c = cx.consts.get(l)
    if c is not None and "enum" in c:
        e, m = c["enum"]
        ev = cx.types.get(e)
        v = None
        if ev and "Enum" in ev:
            for var in ev["Enum"]["variants"]:
                if var["name"] == m:
                    if "Num" in var["value"]:
                        v = var["value"]["Num"]
                    break
        if v is None:
            raise Unsupported("enum label")
        if isinstance(disc_t, dict):
            return ("Enum", e, m, v)
        # an enum member as a label of an integer discriminant stands for its value (the emitted
        # arm is `c if c == E::M as u32`); only when the discriminant is written as the primitive
        # itself -- through a typedef the cast does not compile
        raw = u["switch"]["type"]
        if raw == "U32":
            return ("U32", v)
        if raw == "I32":
            return ("I32", v)
        raise Unsupported("enum member label on a typedef'd integer discriminant")
    text = c["const"] if c is not None else l
    if disc_t == "Bool":
        if l == "TRUE":
            return ("Bool", True)
        if l == "FALSE":
            return ("Bool", False)
        raise Unsupported("bool label")
    v = lit_value(text)
    if v is None:
        raise Unsupported("label " + l)
    if disc_t == "U32":
        return ("U32", v)
    if disc_t == "I32":
        return ("I32", v)
    raise Unsupported("disc")


def variant_name(l):
    return ("v_" + l) if l[:1].isdigit() else l


def disc_type(cx, u):
    t = u["switch"]["type"]
    if isinstance(t, dict):
        d = cx.types.get(t["Ident"])
        if d and "Typedef" in d:
            return d["Typedef"]["target"]
    return t


def union_choices(cx, u):
    """[(disc xval, variant, arm array_type or None)] for every declared label"""
    dt = disc_type(cx, u)
    out = []
    for c in u["cases"]:
        for l in c["values"]:
            out.append((label_value(cx, u, l, dt), variant_name(l), c["value"]))
    for l in u["void_cases"]:
        if l != "default":
            out.append((label_value(cx, u, l, dt), variant_name(l), None))
    return out


def undeclared_disc(cx, u, rng):
    dt = disc_type(cx, u)
    declared = [d for d, _, _ in union_choices(cx, u)]
    if dt == "Bool":
        for b in (True, False):
            if ("Bool", b) not in declared:
                return ("Bool", b)
        return None
    if isinstance(dt, dict):
        e = cx.types.get(dt["Ident"])
        if not e or "Enum" not in e:
            raise Unsupported("discriminant type")
        for var in e["Enum"]["variants"]:
            if "Num" in var["value"]:
                d = ("Enum", e["Enum"]["name"], var["name"], var["value"]["Num"])
                if d not in declared:
                    return d
        return None
    used = set(d[1] for d in declared)
    for v in [rng.getrandbits(31), 77, 2 ** 31 - 1, 12345]:
        if v not in used:
            return ("U32" if dt == "U32" else "I32", v)
    return None


def gen_named(cx, name, rng, depth, sizes, choice=None):
    t = cx.types.get(name)
    if t is None:
        raise Unsupported("unknown type " + name)
    if "Struct" in t:
        s = t["Struct"]
        return ("Struct", name, [gen_pos(cx, f["value"], f["optional"], rng, depth - 1, sizes) for f in s["fields"]])
    if "Enum" in t:
        vs = [v for v in t["Enum"]["variants"] if "Num" in v["value"]]
        if not vs:
            raise Unsupported("enum")
        v = rng.choice(vs)
        return ("Enum", name, v["name"], v["value"]["Num"])
    if "Typedef" in t:
        td = t["Typedef"]
        a = td["alias"]
        if "None" in a:
            pos = {"None": td["target"]}
        elif "Fixed" in a:
            pos = {"Fixed": [td["target"], a["Fixed"][1]]}
        else:
            pos = {"Var": [td["target"], a["Var"][1]]}
        return ("Alias", name, gen_pos(cx, pos, False, rng, depth - 1, sizes))
    u = t["Union"]
    ch = union_choices(cx, u)
    has_default = u["default"] is not None or "default" in u["void_cases"]
    pick = choice if choice is not None else rng.randrange(len(ch) + (1 if has_default else 0))
    if not has_default:
        if not ch:
            raise Unsupported("union without arms")
        pick = pick % len(ch)
    if pick < len(ch):
        d, variant, arm = ch[pick]
    else:
        d = undeclared_disc(cx, u, rng)
        if d is None:
            d, variant, arm = ch[0]
        else:
            variant = "default"
            arm = u["default"]["value"] if u["default"] is not None else None
    y = None if arm is None else gen_pos(cx, arm, False, rng, depth - 1, sizes)
    return ("Union", name, d, variant, y)


# ---------------------------------------------------------------------------------------
# enc / canon / nF1 / step_exact (mirror of Spec.v)


def be(n, k):
    return (n % (1 << (8 * k))).to_bytes(k, "big")


def enc_bytes(b):
    return b + b"\0" * (ru4(len(b)) - len(b))


def enc(x):
    k = x[0]
    if k in ("U32", "F32"):
        return be(x[1], 4)
    if k == "I32":
        return be(x[1], 4)
    if k in ("U64", "F64", "I64"):
        return be(x[1], 8)
    if k == "Bool":
        return be(1 if x[1] else 0, 4)
    if k == "Enum":
        return be(x[3], 4)
    if k in ("String", "OpaqueV"):
        return be(len(x[1]), 4) + enc_bytes(x[1])
    if k == "OpaqueF":
        return enc_bytes(x[1])
    if k == "ArrF":
        return b"".join(enc(y) for y in x[1])
    if k == "ArrV":
        return be(len(x[1]), 4) + b"".join(enc(y) for y in x[1])
    if k == "Opt":
        return be(0, 4) if x[1] is None else be(1, 4) + enc(x[1])
    if k == "Struct":
        return b"".join(enc(y) for y in x[2])
    if k == "Union":
        return enc(x[2]) + (b"" if x[4] is None else enc(x[4]))
    if k == "Alias":
        return enc(x[2])
    raise ValueError(k)


def canon(x, o):
    """canonical rendering of the expected decoded value; o = offset of enc(x) in the allocation"""
    k = x[0]
    if k == "U32":
        return "u32:%d" % x[1]
    if k == "I32":
        return "i32:%d" % x[1]
    if k == "U64":
        return "u64:%d" % x[1]
    if k == "I64":
        return "i64:%d" % x[1]
    if k == "F32":
        return "f32:%d" % x[1]
    if k == "F64":
        return "f64:%d" % x[1]
    if k == "Bool":
        return "bool:%d" % (1 if x[1] else 0)
    if k == "Enum":
        return "E:%s::%s" % (x[1], x[2])
    if k == "String":
        return "str:" + x[1].hex()
    if k == "OpaqueV":
        return "bytes@%s:%s" % ("E" if not x[1] else str(o + 4), x[1].hex())
    if k == "OpaqueF":
        return "bytes@%s:%s" % ("E" if not x[1] else str(o), x[1].hex())
    if k in ("ArrF", "ArrV", "Struct"):
        items = x[1] if k != "Struct" else x[2]
        p = o + (4 if k == "ArrV" else 0)
        out = []
        for y in items:
            out.append(canon(y, p))
            p += len(enc(y))
        if k == "ArrF":
            return "arr[%s]" % ",".join(out)
        if k == "ArrV":
            return "vec[%s]" % ",".join(out)
        return "S:%s{%s}" % (x[1], ",".join(out))
    if k == "Opt":
        return "none" if x[1] is None else "some(%s)" % canon(x[1], o + 4)
    if k == "Union":
        if x[4] is None:
            return "E:%s::%s" % (x[1], x[3])
        return "E:%s::%s(%s)" % (x[1], x[3], canon(x[4], o + len(enc(x[2]))))
    if k == "Alias":
        return "N:%s(%s)" % (x[1], canon(x[2], o))
    raise ValueError(k)


def nF1(x):
    k = x[0]
    if k in ("ArrF", "ArrV"):
        return sum(nF1(y) for y in x[1])
    if k == "Opt":
        return 0 if x[1] is None else nF1(x[1])
    if k == "Struct":
        return sum(1 for y in x[2] if y[0] == "OpaqueV") + sum(nF1(y) for y in x[2])
    if k == "Union":
        if x[4] is None:
            return 0
        return (1 if x[4][0] == "OpaqueV" else 0) + nF1(x[4])
    if k == "Alias":
        return nF1(x[2])
    return 0


def step_exact(x):
    k = x[0]
    if k == "ArrF":
        return all(step_exact(y) for y in x[1])
    if k == "ArrV":
        return all(step_exact(y) and nF1(y) == 0 for y in x[1])
    if k == "Opt":
        return x[1] is None or step_exact(x[1])
    if k == "Struct":
        return all(step_exact(y) for y in x[2])
    if k == "Union":
        return x[4] is None or step_exact(x[4])
    if k == "Alias":
        return step_exact(x[2])
    return True


def opaque_leaves(x):
    k = x[0]
    n = 1 if k in ("OpaqueV", "OpaqueF") and x[1] else 0
    if k in ("ArrF", "ArrV"):
        return n + sum(opaque_leaves(y) for y in x[1])
    if k == "Opt":
        return 0 if x[1] is None else opaque_leaves(x[1])
    if k == "Struct":
        return sum(opaque_leaves(y) for y in x[2])
    if k == "Union":
        return 0 if x[4] is None else opaque_leaves(x[4])
    if k == "Alias":
        return opaque_leaves(x[2])
    return n


def expected_line(x, off):
    e = enc(x)
    c = canon(x, off)
    w = len(e) - 4 * nF1(x)
    return "REF OK %s consumed=%d wsz=%d | VAL OK %s wsz=%d" % (c, len(e), w, c, w)


def cbytes(b):
    return "[" + "; ".join(str(v) for v in b) + "]%N"


def to_coq(x):
    k = x[0]
    if k in ("U32", "U64", "F32", "F64"):
        return "(X%s %d%%N)" % (k, x[1])
    if k in ("I32", "I64"):
        return "(X%s (%d)%%Z)" % (k, x[1])
    if k == "Bool":
        return "(XBool %s)" % ("true" if x[1] else "false")
    if k == "Enum":
        return "(XEnum %s %s (%d)%%Z)" % (ct.cstr(x[1]), ct.cstr(x[2]), x[3])
    if k == "String":
        return "(XString %s)" % cbytes(x[1])
    if k == "OpaqueV":
        return "(XOpaqueV %s)" % cbytes(x[1])
    if k == "OpaqueF":
        return "(XOpaqueF %s)" % cbytes(x[1])
    if k == "ArrF":
        return "(XArrF %s)" % ct.clist([to_coq(y) for y in x[1]])
    if k == "ArrV":
        return "(XArrV %s)" % ct.clist([to_coq(y) for y in x[1]])
    if k == "Opt":
        return "(XOpt %s)" % ct.copt(None if x[1] is None else to_coq(x[1]))
    if k == "Struct":
        return "(XStruct %s %s)" % (ct.cstr(x[1]), ct.clist([to_coq(y) for y in x[2]]))
    if k == "Union":
        return "(XUnion %s %s %s %s)" % (ct.cstr(x[1]), to_coq(x[2]), ct.cstr(x[3]),
                                        ct.copt(None if x[4] is None else to_coq(x[4])))
    if k == "Alias":
        return "(XAlias %s %s)" % (ct.cstr(x[1]), to_coq(x[2]))
    raise ValueError(k)


def size_picker(rng):
    """lengths for opaque/string payloads: every residue mod 4, empty and maximal"""
    def sizes(m):
        cap = 12 if m is None else min(m, 12)
        c = [0, 1, 2, 3, 4, 5, 6, 7, 8, 9, cap, cap]
        return min(rng.choice(c), cap)
    return sizes


def marks(cx, name_or_pos, x, o, out, declared=None):
    """positions of the control words of enc(x): (offset, kind, info).  kinds: optmark, bool,
    enum (info = enum type name), disc (info = union name), strlen, oplen, count"""
    k = x[0]
    if k == "Bool":
        out.append((o, "bool", None))
    elif k == "Enum":
        out.append((o, "enum", x[1]))
    elif k == "String":
        out.append((o, "strlen", len(x[1])))
    elif k == "OpaqueV":
        out.append((o, "oplen", len(x[1])))
    elif k in ("ArrF", "ArrV", "Struct"):
        items = x[1] if k != "Struct" else x[2]
        p = o
        if k == "ArrV":
            out.append((o, "count", len(items)))
            p += 4
        for y in items:
            marks(cx, None, y, p, out)
            p += len(enc(y))
    elif k == "Opt":
        out.append((o, "optmark", None))
        if x[1] is not None:
            marks(cx, None, x[1], o + 4, out)
    elif k == "Union":
        out.append((o, "disc", x[1]))
        if x[4] is not None:
            marks(cx, None, x[4], o + len(enc(x[2])), out)
    elif k == "Alias":
        marks(cx, None, x[2], o, out)
    return out


def base_type(a):
    v = a.get("None")
    if v is None:
        v = (a.get("Fixed") or a.get("Var"))[0]
    return v


def type_has_f1(cx, name, seen=None):
    """can a value of this type contain an inline variable-length opaque field/arm (nF1 > 0)?"""
    seen = seen or set()
    if name in seen:
        return False
    seen = seen | {name}
    t = cx.types.get(name)
    if t is None:
        return False
    inner = []
    if "Struct" in t:
        for f in t["Struct"]["fields"]:
            a = f["value"]
            b = base_type(a)
            if b == "Opaque" and "Fixed" not in a:
                return True
            inner.append(b)
    elif "Union" in t:
        u = t["Union"]
        for c in u["cases"] + ([u["default"]] if u["default"] else []):
            b = base_type(c["value"])
            if b == "Opaque":
                return True
            inner.append(b)
    elif "Typedef" in t:
        inner.append(t["Typedef"]["target"])
    return any(isinstance(b, dict) and type_has_f1(cx, b["Ident"], seen) for b in inner)


def spec_has_f1_array(cx):
    """is there a counted array whose element type can contain an F1 leaf?"""
    for k, t in cx.types.items():
        pos = []
        if "Struct" in t:
            pos = [f["value"] for f in t["Struct"]["fields"]]
        elif "Typedef" in t:
            a = t["Typedef"]["alias"]
            if "Var" in a:
                pos = [{"Var": [t["Typedef"]["target"], a["Var"][1]]}]
        for a in pos:
            if "Var" in a and isinstance(a["Var"][0], dict) and type_has_f1(cx, a["Var"][0]["Ident"]):
                return True
    return False


def _positions(t):
    """(array_type json) positions of a declared type"""
    if "Struct" in t:
        return [f["value"] for f in t["Struct"]["fields"]]
    if "Union" in t:
        u = t["Union"]
        pos = [c["value"] for c in u["cases"]]
        if u["default"] is not None:
            pos.append(u["default"]["value"])
        return pos
    if "Typedef" in t:
        a = t["Typedef"]["alias"]
        tg = t["Typedef"]["target"]
        if "Var" in a:
            return [{"Var": [tg, a["Var"][1]]}]
        if "Fixed" in a:
            return [{"Fixed": [tg, a["Fixed"][1]]}]
        return [{"None": tg}]
    return []


def spec_has_self_nested_array(cx):
    """is there a counted array that can contain, at any depth, a counted array of the same
    declaration (finding F15: every level reserves min(count, remaining))?"""
    edges = {}
    for k, t in cx.types.items():
        for a in _positions(t):
            kind = "Var" if "Var" in a else ("Fixed" if "Fixed" in a else "None")
            b = a[kind][0] if kind != "None" else a["None"]
            if isinstance(b, dict) and "Ident" in b:
                edges.setdefault(k, []).append((b["Ident"], kind == "Var"))

    def reach(src):
        seen, todo = set(), [src]
        while todo:
            x = todo.pop()
            for y, _ in edges.get(x, []):
                if y not in seen:
                    seen.add(y)
                    todo.append(y)
        return seen
    for k, es in edges.items():
        for y, is_var in es:
            if is_var and (y == k or k in reach(y)):
                return True
    return False
