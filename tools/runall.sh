#!/bin/bash
# run every check once on the current tree, one line per check
cd /verif
for p in C01 C02 C03 C04 C05 C06 C07 C08 C09 C10 C11 C12 C13 C14 C15; do
  s=$(date +%s); ./verify $p > /tmp/out_$p.txt 2>/tmp/err_$p.txt; rc=$?
  echo "$p exit=$rc $(( $(date +%s)-s ))s known=$(grep -c KNOWN /tmp/out_$p.txt) $(grep VIOLATION /tmp/out_$p.txt | head -2 | tr '\n' ' ')"
done
