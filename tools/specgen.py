"""Generators of XDR specifications in the supported subset (DESIGN.md section 5), as
declaration lists with a printer that can vary layout (whitespace, comments) and order."""
import random

U32_SPELL = ["unsigned int", "uint32_t", "u32", "unsigned"]
I32_SPELL = ["int", "int32_t", "i32"]
U64_SPELL = ["unsigned hyper", "uint64_t", "u64"]
I64_SPELL = ["hyper", "int64_t", "i64"]
PRIM_KINDS = {"U32": U32_SPELL, "I32": I32_SPELL, "U64": U64_SPELL, "I64": I64_SPELL,
              "F32": ["float"], "F64": ["double"], "Bool": ["bool"]}
# spellings that the grammar tokenises as basic_type (atomic, followed by whitespace)
GRAMMAR_BASIC = {"unsigned int", "unsigned hyper", "int", "hyper", "float", "double", "string", "opaque"}

RESERVED = ["as", "async", "await", "break", "const", "continue", "crate", "dyn", "else", "enum",
            "extern", "false", "fn", "for", "if", "impl", "in", "let", "loop", "match", "mod", "move",
            "mut", "pub", "ref", "return", "Self", "self", "static", "struct", "super", "trait", "true",
            "type", "union", "unsafe", "use", "where", "while", "abstract", "become", "box", "do",
            "final", "macro", "override", "priv", "try", "typeof", "unsized", "virtual", "yield"]
# words the XDR grammar itself treats specially when they start a declaration are fine as field
# names: the grammar has no keyword exclusion for idents except basic types
NEAR_MISS = ["types", "Type", "selfish", "matches", "r#type", "union_", "structs", "asx", "TRUEx", "type_t"]
FIELD_POOL = ["a", "b2", "count", "flags", "owner", "cookie", "verf", "attrs", "len_", "name", "value",
              "next", "entry", "status_", "id", "seq", "ok", "what", "obj", "args", "res"]


class Gen:
    def __init__(self, rng, max_decls=8, names_from_reserved=True):
        self.rng = rng
        self.max_decls = max_decls
        self.reserved = names_from_reserved
        self.n = 0
        self.decls = []
        self.types = []        # (name, kind, has_opaque, is_prim_alias)
        self.consts = []       # (name, value)
        self.enums = []        # (name, [(member, value)])
        self.used = set()

    def fresh(self, prefix):
        self.n += 1
        return "%s%d" % (prefix, self.n)

    def field_name(self):
        r = self.rng
        for _ in range(50):
            if self.reserved and r.random() < 0.25:
                nm = r.choice(RESERVED)
            elif r.random() < 0.1:
                nm = r.choice([x for x in NEAR_MISS if "#" not in x])
            else:
                nm = r.choice(FIELD_POOL) + (str(r.randrange(9)) if r.random() < 0.3 else "")
            # a field may not be spelled like a primitive type
            if nm in ("int", "hyper", "float", "double", "string", "opaque", "bool", "unsigned", "void",
                      "u32", "i32", "u64", "i64", "default"):
                continue
            return nm
        return self.fresh("f")

    def numeral(self, v):
        if self.rng.random() < 0.25:
            return "0x%x" % v if self.rng.random() < 0.5 else "0x%X" % v
        return str(v)

    def const(self, value=None, hexok=True):
        name = self.fresh("K_")
        v = self.rng.choice([0, 1, 2, 3, 4, 5, 7, 8, 16, 255]) if value is None else value
        text = self.numeral(v) if hexok else str(v)
        self.decls.append(("const", name, text))
        self.consts.append((name, v, text))
        return name

    def bound(self, lo=0, hi=9):
        """a literal or a (decimal) constant bound"""
        v = self.rng.randrange(lo, hi + 1)
        if self.rng.random() < 0.35:
            return self.const(v, hexok=False), v
        return str(v), v

    def enum(self):
        name = self.fresh("en")
        k = self.rng.randrange(1, 5)
        vals = self.rng.sample([0, 1, 2, 3, 5, 8, 13, 100, 0x7fffffff, 65536], k)
        members = [(self.fresh("M_") if self.rng.random() < 0.8 else self.fresh("m"), self.numeral(v), v) for v in vals]
        self.decls.append(("enum", name, [(m, t) for m, t, _ in members]))
        self.enums.append((name, [(m, v) for m, _, v in members]))
        self.types.append((name, "enum"))
        return name

    def prim(self):
        kind = self.rng.choice(list(PRIM_KINDS))
        return self.rng.choice(PRIM_KINDS[kind])

    def named(self, allow=("struct", "union", "enum", "typedef")):
        c = [t for t in self.types if t[1] in allow]
        return self.rng.choice(c)[0] if c else None

    def field(self, self_name=None):
        """(type text, name, suffix, optional)"""
        r = self.rng
        nm = self.field_name()
        k = r.random()
        if k < 0.25:
            ty = self.prim()
            if r.random() < 0.25:
                b, _ = self.bound(1, 4)
                return (ty, nm, "[%s]" % b, False)
            return (ty, nm, "", False)
        if k < 0.38:
            f = r.choice(["", "<>", "<n>"])
            if f == "<n>":
                b, _ = self.bound(0, 9)
                return ("string", nm, "<%s>" % b, False)
            return ("string", nm, f, False)
        if k < 0.55:
            f = r.choice(["", "[n]", "<>", "<n>"])
            if f == "[n]":
                b, _ = self.bound(1, 9)
                return ("opaque", nm, "[%s]" % b, False)
            if f == "<n>":
                b, _ = self.bound(0, 9)
                return ("opaque", nm, "<%s>" % b, False)
            return ("opaque", nm, f, False)
        t = self.named()
        if t is None:
            return (self.prim(), nm, "", False)
        f = r.choice(["", "", "[n]", "<>", "<n>", "*"])
        if self_name and r.random() < 0.15:
            return (self_name, nm, "", True)
        if f == "*":
            return (t, nm, "", True)
        if f == "[n]":
            b, _ = self.bound(1, 3)
            return (t, nm, "[%s]" % b, False)
        if f == "<n>":
            b, _ = self.bound(0, 4)
            return (t, nm, "<%s>" % b, False)
        return (t, nm, f, False)

    def struct(self):
        name = self.fresh("st")
        k = self.rng.randrange(1, 5)
        fields, seen = [], set()
        for _ in range(k):
            f = self.field(self_name=name)
            if f[1] in seen:
                continue
            seen.add(f[1])
            fields.append(f)
        self.decls.append(("struct", name, fields))
        self.types.append((name, "struct"))
        return name

    def arm(self):
        r = self.rng
        if r.random() < 0.3:
            return ("void",)
        k = r.random()
        if k < 0.35:
            ty = self.prim()
        elif k < 0.45:
            ty = "string"
        elif k < 0.55:
            ty = "opaque"
        else:
            ty = self.named() or self.prim()
        return ("data", ty, self.field_name())

    def union(self):
        r = self.rng
        name = self.fresh("un")
        k = r.random()
        labels = []
        if k < 0.3 or not self.enums:
            if r.random() < 0.5:
                disc = r.choice(I32_SPELL + U32_SPELL)
            else:
                disc = r.choice(I32_SPELL + U32_SPELL)
            vals = r.sample(range(0, 12), r.randrange(1, 5))
            for v in vals:
                if r.random() < 0.3:
                    labels.append(self.const(v))
                else:
                    labels.append(str(v))
        elif k < 0.45:
            disc = "bool"
            labels = r.sample(["TRUE", "FALSE"], r.randrange(1, 3))
        elif k < 0.55:
            # typedef'd integer discriminant
            base = r.choice(["unsigned int", "int"])
            td = self.fresh("td")
            self.decls.append(("typedef", base, td, ""))
            self.types.append((td, "typedef"))
            disc = td
            labels = [str(v) for v in r.sample(range(0, 9), r.randrange(1, 4))]
        else:
            en, members = r.choice(self.enums)
            disc = en
            labels = [m for m, _ in r.sample(members, r.randrange(1, len(members) + 1))]
        groups = []
        i = 0
        while i < len(labels):
            g = labels[i:i + r.choice([1, 1, 2, 3])]
            i += len(g)
            groups.append((g, self.arm()))
        default = None
        if disc != "bool" or len(labels) < 2:
            if r.random() < 0.5:
                default = self.arm()
        elif r.random() < 0.2:
            default = self.arm()
        self.decls.append(("union", name, disc, self.field_name(), groups, default))
        self.types.append((name, "union"))
        return name

    def typedef(self):
        r = self.rng
        name = self.fresh("td")
        k = r.random()
        if k < 0.25:
            ty = self.prim()
            suffix = ""
            if r.random() < 0.3:
                b, _ = self.bound(1, 4)
                suffix = "[%s]" % b
        elif k < 0.33:
            ty, suffix = "string", ""
        elif k < 0.58:
            ty = "opaque"
            f = r.choice(["", "[n]", "<>", "<n>"])
            suffix = f
            if f == "[n]":
                suffix = "[%s]" % self.bound(1, 9)[0]
            if f == "<n>":
                suffix = "<%s>" % self.bound(0, 9)[0]
        else:
            ty = self.named()
            if ty is None:
                ty, suffix = self.prim(), ""
            else:
                f = r.choice(["", "", "[n]", "<>", "<n>"])
                suffix = f
                if f == "[n]":
                    suffix = "[%s]" % self.bound(1, 3)[0]
                if f == "<n>":
                    suffix = "<%s>" % self.bound(0, 4)[0]
        self.decls.append(("typedef", ty, name, suffix))
        self.types.append((name, "typedef"))
        return name

    def run(self):
        r = self.rng
        n = r.randrange(1, self.max_decls + 1)
        for _ in range(n):
            k = r.random()
            if k < 0.12:
                self.enum()
            elif k < 0.5:
                self.struct()
            elif k < 0.75:
                self.union()
            else:
                self.typedef()
        return self.decls


def random_spec(rng, max_decls=8):
    g = Gen(rng, max_decls)
    decls = g.run()
    # forward references: any order of the declarations is admissible
    if rng.random() < 0.6:
        rng.shuffle(decls)
    return decls


# ---------------------------------------------------------------------------------------
# printing with layout


def tokens(decl):
    """grammar tokens of a declaration; a basic_type token carries the marker 'BT' since it
    must be followed by whitespace (the grammar's atomic basic_type consumes it)"""
    def ty(t):
        return [("BT", t)] if t in GRAMMAR_BASIC else [("ID", t)]

    def suffix(s):
        if not s:
            return []
        if s[0] == "[":
            return [("P", "["), ("ID", s[1:-1]), ("P", "]")]
        if s == "<>":
            return [("P", "<"), ("P", ">")]
        return [("P", "<"), ("ID", s[1:-1]), ("P", ">")]

    def field(t, n, s, opt):
        out = ty(t)
        if opt:
            out += [("P", "*"), ("ID", n)]
        else:
            out += [("ID", n)]
        return out + suffix(s) + [("P", ";")]

    k = decl[0]
    if k == "const":
        return [("KW", "const"), ("ID", decl[1]), ("P", "="), ("ID", decl[2]), ("P", ";")]
    if k == "enum":
        out = [("KW", "enum"), ("ID", decl[1]), ("P", "{")]
        for i, (m, v) in enumerate(decl[2]):
            if i:
                out.append(("P", ","))
            out += [("ID", m), ("P", "="), ("ID", v)]
        return out + [("P", "}"), ("P", ";")]
    if k == "struct":
        out = [("KW", "struct"), ("ID", decl[1]), ("P", "{")]
        for f in decl[2]:
            out += field(*f)
        return out + [("P", "}"), ("P", ";")]
    if k == "union":
        _, name, disc, dname, groups, default = decl
        out = [("KW", "union"), ("ID", name), ("KW", "switch"), ("P", "(")] + ty(disc) + [("ID", dname), ("P", ")"), ("P", "{")]

        def arm(a):
            if a[0] == "void":
                return [("KW", "void"), ("P", ";")]
            return field(a[1], a[2], "", False)
        for labels, a in groups:
            for i, l in enumerate(labels):
                out += [("KW", "case"), ("ID", l), ("P", ":")]
            out += arm(a)
        if default is not None:
            if default[0] == "falls":
                for l in default[1]:
                    out += [("KW", "case"), ("ID", l), ("P", ":")]
                out += [("KW", "default"), ("P", ":")] + arm(default[2])
            else:
                out += [("KW", "default"), ("P", ":")] + arm(default)
        return out + [("P", "}"), ("P", ";")]
    if k == "typedef":
        _, t, name, s = decl
        return [("KW", "typedef")] + ty(t) + [("ID", name)] + suffix(s) + [("P", ";")]
    raise ValueError(k)


def trivia(rng, need_space, rich):
    """whitespace / comments between two tokens"""
    if not rich:
        return " " if need_space else ""
    k = rng.random()
    if k < 0.35:
        return " " if need_space else ""
    if k < 0.5:
        return rng.choice([" ", "\t", "\n", "\r\n", "   ", " \n\t "])
    if k < 0.75:
        body = rng.choice(["c", " a * b / c ", "**", "/", "* /", "x\ny", "", " struct x { int a; }; ", "*", " doc *", "* x **"])
        return " /*" + body + "*/ "
    if k < 0.9:
        return " // " + rng.choice(["note", "", "/* not closed", "*/ stray"]) + "\n"
    return " /* a */ // b\n /* c */ "


def print_spec(decls, rng=None, rich=False, bt_spans=None):
    """bt_spans, if a list, receives the span of every basic_type token in order (the atomic
    rule swallows the white space that follows the spelling)"""
    rng = rng or random.Random(0)
    out = []
    bt_at = []
    if rich:
        out.append(trivia(rng, False, True))
    for d in decls:
        toks = tokens(d)
        for i, (kind, text) in enumerate(toks):
            if kind == "BT" and rich and " " in text:
                # the white space inside `unsigned int` is the grammar's WHITESPACE+ as well
                text = text.replace(" ", rng.choice([" ", "\t", "\n", "\r\n", "  ", " \t", "\r"]))
            out.append(text)
            nxt = toks[i + 1] if i + 1 < len(toks) else None
            if kind == "BT":
                bt_at.append(len(out) - 1)
                # the atomic basic_type token needs whitespace right after it
                out.append(rng.choice([" ", "\t", "\n", "  "]) if rich else " ")
                if rich and rng.random() < 0.5:
                    out.append(trivia(rng, False, True))
                continue
            need = nxt is not None and kind in ("KW", "ID") and nxt[0] in ("KW", "ID", "BT")
            if nxt is None:
                out.append(trivia(rng, False, rich) if rich else "\n")
            else:
                out.append(trivia(rng, need, rich))
                if need and rich and not out[-1]:
                    out.append(" ")
    text = "".join(out)
    if bt_spans is not None:
        offs, n = [], 0
        for piece in out:
            offs.append(n)
            n += len(piece)
        for idx in bt_at:
            end = offs[idx] + len(out[idx])
            while end < len(text) and text[end] in " \t\r\n":
                end += 1
            bt_spans.append(text[offs[idx]:end])
    return text


def sdecl_terms(decls, bt_spans, cstr):
    """the declaration list as Coq terms of Source.sdecl; bt_spans as returned by print_spec"""
    spans = iter(bt_spans)

    def ty(t):
        if t in GRAMMAR_BASIC:
            return "(TTBasic %s)" % cstr(next(spans))
        return "(TTIdent %s)" % cstr(t)

    def btok(x):
        return ("(BVal %s)" if x.isdigit() else "(BConst %s)") % cstr(x)

    def arr(sfx):
        if not sfx:
            return "SNone"
        if sfx[0] == "[":
            return "(SFixed %s)" % btok(sfx[1:-1])
        if sfx == "<>":
            return "(SVar None)"
        return "(SVar (Some %s))" % btok(sfx[1:-1])

    def field(t, n, sfx, opt):
        # token order in the text: type, name, suffix
        tt = ty(t)
        return "{| f_ty := %s; f_name := %s; f_arr := %s; f_opt := %s |}" % (tt, cstr(n), arr(sfx), "true" if opt else "false")

    def arm(a):
        if a[0] == "void":
            return "ArmVoid"
        return "(ArmData %s %s)" % (ty(a[1]), cstr(a[2]))

    def group(labels, dflt, a):
        return "{| g_labels := [%s]; g_default := %s; g_arm := %s |}" % (
            "; ".join(btok(l) for l in labels), "true" if dflt else "false", arm(a))

    out = []
    for d in decls:
        k = d[0]
        if k == "const":
            out.append("(KConst %s %s)" % (cstr(d[1]), cstr(d[2])))
        elif k == "enum":
            out.append("(KEnum %s [%s])" % (cstr(d[1]), "; ".join("(%s, %s)" % (cstr(m), cstr(v)) for m, v in d[2])))
        elif k == "struct":
            out.append("(KStruct %s [%s])" % (cstr(d[1]), "; ".join(field(*f) for f in d[2])))
        elif k == "union":
            _, name, disc, dname, groups, default = d
            dt = ty(disc)
            gs = [group(ls, False, a) for ls, a in groups]
            if default is not None:
                if default[0] == "falls":
                    gs.append(group(default[1], True, default[2]))
                else:
                    gs.append(group([], True, default))
            out.append("(KUnion %s %s %s [%s])" % (cstr(name), dt, cstr(dname), "; ".join(gs)))
        elif k == "typedef":
            _, t, name, sfx = d
            out.append("(KTypedef %s %s %s)" % (ty(t), cstr(name), arr(sfx)))
        else:
            raise ValueError(k)
    return "[" + "; ".join(out) + "]"


# ---------------------------------------------------------------------------------------
# the systematic matrix: one small specification per cell


def matrix():
    """every position x base type x declarator x bound kind; returns a list of texts"""
    specs = []
    helpers = ("const CK = 3;\nenum color { RED = 0, GREEN = 1, BLUE = 0x10 };\n"
               "struct plain { unsigned int a; hyper b; };\n"
               "struct withop { int tag; opaque body<>; };\n"
               "typedef unsigned int u32alias;\ntypedef opaque blob<>;\ntypedef opaque fixed8[8];\n"
               "typedef plain plainseq<CK>;\ntypedef withop wo;\n")
    prims = ["unsigned int", "int", "unsigned hyper", "hyper", "float", "double", "bool", "uint32_t", "u64"]
    named = ["color", "plain", "withop", "u32alias", "blob", "fixed8", "plainseq", "wo"]
    # struct fields
    for t in prims:
        for d in ["", "[2]", "[CK]"]:
            specs.append(helpers + "struct cell { %s x%s; int tail; };\n" % (t, d))
    for d in ["", "<>", "<5>", "<CK>"]:
        specs.append(helpers + "struct cell { string x%s; int tail; };\n" % d)
    for d in ["", "[5]", "[CK]", "<>", "<5>", "<CK>"]:
        specs.append(helpers + "struct cell { opaque x%s; int tail; };\n" % d)
    for t in named:
        for d in ["", "[2]", "[CK]", "<>", "<2>", "<CK>"]:
            specs.append(helpers + "struct cell { %s x%s; int tail; };\n" % (t, d))
        specs.append(helpers + "struct cell { %s *x; int tail; };\n" % t)
    specs.append(helpers + "struct cell { int v; cell *next; };\n")
    # union arms, all discriminant kinds and label kinds
    for t in prims + ["string", "opaque"] + named:
        specs.append(helpers + "union cell switch (unsigned int k) { case 1: %s x; case 2: case CK: void; default: %s y; };\n" % (t, t))
        specs.append(helpers + "union cell switch (color k) { case RED: %s x; case GREEN: void; };\n" % t)
    specs.append(helpers + "union cell switch (bool k) { case TRUE: plain x; case FALSE: void; };\n")
    specs.append(helpers + "union cell switch (bool k) { case TRUE: void; case FALSE: void; };\n")
    specs.append(helpers + "union cell switch (int k) { case 0: case 1: plain x; case 7: withop y; default: void; };\n")
    specs.append(helpers + "const HX = 0x10;\nunion cell switch (u32alias k) { case 0: int x; case HX: blob y; };\n")
    specs.append(helpers + "union cell switch (color k) { case BLUE: int x; default: withop rest; };\n")
    specs.append(helpers + "union cell switch (int k) { case 4: default: hyper x; };\n")
    # typedefs
    for t in prims:
        for d in ["", "[3]", "[CK]"]:
            specs.append(helpers + "typedef %s cell%s;\nstruct user { cell c; cell cs<2>; };\n" % (t, d))
    specs.append(helpers + "typedef string cell;\nstruct user { cell c; cell cs<2>; cell *o; };\n")
    for d in ["", "[4]", "[CK]", "<>", "<6>", "<CK>"]:
        specs.append(helpers + "typedef opaque cell%s;\nstruct user { cell c; cell cs<2>; cell f[2]; cell *o; };\n" % d)
    for t in named:
        for d in ["", "[2]", "<>", "<2>", "<CK>"]:
            specs.append(helpers + "typedef %s cell%s;\nstruct user { cell c; cell cs<2>; };\n" % (t, d))
    # reserved words and near misses as field / discriminant names and labels
    for w in RESERVED + [x for x in NEAR_MISS if "#" not in x]:
        specs.append("struct cell { int %s; opaque other<>; };\nunion u2 switch (int %s) { case 1: int %s; default: void; };\n" % (w, w, w))
    return specs


# ---------------------------------------------------------------------------------------
# the reference reading of a declaration list (what the README says the Ast exposes)

SPELL = {}
for _k, _v in PRIM_KINDS.items():
    for _s in _v:
        SPELL[_s] = _k
SPELL["string"] = "String"
SPELL["opaque"] = "Opaque"


def ref_bt(t):
    return SPELL.get(t, {"Ident": t}) if t not in SPELL else SPELL[t]


def ref_size(text):
    if text.isdigit() and int(text) < 2 ** 32:
        return {"Known": int(text)}
    return {"Constant": text}


def ref_array(t, suffix):
    b = ref_bt(t)
    if not suffix:
        return {"None": b}
    if suffix[0] == "[":
        return {"Fixed": [b, ref_size(suffix[1:-1])]}
    if suffix == "<>":
        return {"Var": [b, None]}
    return {"Var": [b, ref_size(suffix[1:-1])]}


def ref_num(text):
    return int(text, 16) if text.startswith("0x") else int(text)


def expected_ast(decls):
    consts, types = {}, {}
    for d in decls:
        k = d[0]
        if k == "const":
            consts[d[1]] = {"const": d[2]}
        elif k == "enum":
            for m, _v in d[2]:
                consts[m] = {"enum": [d[1], m]}
            types[d[1]] = {"Enum": {"name": d[1], "variants": [{"name": m, "value": {"Num": ref_num(v)}} for m, v in d[2]]}}
        elif k == "struct":
            types[d[1]] = {"Struct": {"name": d[1], "fields": [
                {"name": n, "value": ref_array(t, s), "optional": bool(o)} for t, n, s, o in d[2]]}}
        elif k == "union":
            _, name, disc, dname, groups, default = d
            cases, voids = [], []
            for labels, arm in groups:
                if arm[0] == "void":
                    voids += list(labels)
                else:
                    cases.append({"values": list(labels), "name": arm[2], "value": {"None": ref_bt(arm[1])}})
            dflt = None
            if default is not None:
                falls = []
                if default[0] == "falls":
                    falls = list(default[1])
                    default = default[2]
                if default[0] == "void":
                    voids += falls + ["default"]
                else:
                    dflt = {"values": falls + ["default"], "name": default[2], "value": {"None": ref_bt(default[1])}}
            types[name] = {"Union": {"name": name, "cases": cases, "default": dflt, "void_cases": voids,
                                     "switch": {"name": dname, "type": ref_bt(disc)}}}
        elif k == "typedef":
            _, t, name, s = d
            alias = ref_array(name, s)
            types[name] = {"Typedef": {"target": ref_bt(t), "alias": alias}}
    gens = reach(types)
    return {"constants": [[k, consts[k]] for k in sorted(consts)],
            "types": [[k, types[k]] for k in sorted(types)],
            "generics": sorted(gens)}


def inner_types(t):
    if "Struct" in t:
        return [list(f["value"].values())[0] for f in t["Struct"]["fields"]]
    if "Union" in t:
        u = t["Union"]
        cs = [c["value"] for c in u["cases"]] + ([u["default"]["value"]] if u["default"] else [])
        return [list(v.values())[0] for v in cs]
    if "Typedef" in t:
        return [t["Typedef"]["target"]]
    return []


def base_of(v):
    return v[0] if isinstance(v, list) else v


def reach(types):
    """names of structs/unions/typedefs from which an opaque declaration is reachable"""
    gens = set()
    changed = True
    while changed:
        changed = False
        for name, t in types.items():
            if name in gens or "Enum" in t:
                continue
            for b in inner_types(t):
                b = base_of(b)
                if b == "Opaque" or (isinstance(b, dict) and b["Ident"] in gens):
                    gens.add(name)
                    changed = True
                    break
    return gens


def normalize_f3(ast_json):
    """the documented normalisation: `typedef opaque x<>` is an alias of opaque with no array
    wrapper (the opaque reader handles the length prefix)"""
    out = []
    f3 = []
    for k, t in ast_json["types"]:
        if "Typedef" in t and t["Typedef"]["target"] == "Opaque" and "Var" in t["Typedef"]["alias"]:
            b, s = t["Typedef"]["alias"]["Var"]
            if s is not None:
                f3.append(k)
            t = {"Typedef": {"target": "Opaque", "alias": {"None": b}}}
        out.append([k, t])
    return dict(ast_json, types=out), f3


# ---------------------------------------------------------------------------------------
# exhaustive dependency graphs (C13)


def graph_specs(k, limit=None, rng=None):
    """all specifications over k declarations n0..n{k-1}: every kind (struct/union/typedef),
    every subset of {opaque, n0..} as members, edge kinds rotating over plain / <> / [2] / * /
    union arm / default arm / typedef declarators; every declaration order"""
    import itertools
    names = ["n%d" % i for i in range(k)]
    members = ["opaque"] + names
    edge_struct = ["", "<>", "[2]", "*", "<3>"]
    per_decl = []
    for i in range(k):
        opts = []
        subsets = [c for r in range(len(members) + 1) for c in itertools.combinations(members, r)]
        # both member orders: a reference before the opaque field and after it
        subsets = subsets + [tuple(reversed(c)) for c in subsets if len(c) > 1]
        for sub in subsets:
            # struct
            fields = [("int", "pad_", "", False)]
            for j, m in enumerate(sub):
                e = edge_struct[(i + j + len(sub)) % len(edge_struct)]
                if m == "opaque":
                    e2 = ["", "<>", "[4]", "<8>"][(i + j) % 4]
                    fields.append(("opaque", "f%d" % j, e2, False))
                elif e == "*":
                    fields.append((m, "f%d" % j, "", True))
                else:
                    fields.append((m, "f%d" % j, e, False))
            opts.append(("struct", names[i], fields))
            # union: members as arms, the last one possibly as the default arm
            groups = [(["0"], ("data", "int", "pad_"))]
            default = None
            for j, m in enumerate(sub):
                if j == len(sub) - 1 and (i + len(sub)) % 2 == 0:
                    default = ("data", m, "d%d" % j)
                else:
                    groups.append(([str(j + 1)], ("data", m, "a%d" % j)))
            opts.append(("union", names[i], "int", "k", groups, default))
        for m in ["int"] + members:
            if m == names[i]:
                continue
            for s in (["", "[2]", "<>", "<4>"] if m != "int" else [""]):
                opts.append(("typedef", m, names[i], s))
        per_decl.append(opts)
    combos = itertools.product(*per_decl)
    out = []
    for c in combos:
        for perm in itertools.permutations(range(k)):
            out.append([c[p] for p in perm])
    if limit is not None and len(out) > limit:
        rng = rng or random.Random(0)
        out = rng.sample(out, limit)
    return out


def chain_spec(rng, n, depth):
    """random graph over n declarations with a dependency chain of the given depth"""
    names = ["c%d" % i for i in range(n)]
    decls = []
    for i in range(n):
        kind = rng.choice(["struct", "union", "typedef"])
        refs = []
        if i + 1 < min(n, depth + 1):
            refs.append(names[i + 1])           # the chain
        elif rng.random() < 0.5:
            refs.append("opaque")
        if rng.random() < 0.3:
            refs.append(rng.choice(names))
        if rng.random() < 0.15:
            refs.append("opaque")
        if kind == "typedef":
            m = refs[0] if refs else "int"
            if m == names[i]:
                m = "int"
            decls.append(("typedef", m, names[i], rng.choice(["", "<>", "[2]"]) if m != "int" else ""))
        elif kind == "struct":
            fields = [("int", "pad_", "", False)]
            for j, m in enumerate(refs):
                if m == "opaque":
                    fields.append(("opaque", "f%d" % j, rng.choice(["", "<>", "[4]"]), False))
                elif rng.random() < 0.3:
                    fields.append((m, "f%d" % j, "", True))
                else:
                    fields.append((m, "f%d" % j, rng.choice(["", "<>", "[2]"]), False))
            decls.append(("struct", names[i], fields))
        else:
            groups = [(["0"], ("void",))]
            default = None
            for j, m in enumerate(refs):
                if rng.random() < 0.3 and default is None:
                    default = ("data", m, "d%d" % j)
                else:
                    groups.append(([str(j + 1)], ("data", m, "a%d" % j)))
            decls.append(("union", names[i], "int", "k", groups, default))
    rng.shuffle(decls)
    return decls


TRIVIA_CLASSES = [" ", "\t", "\n", "\r\n", "   ", " \n\t ", "/**/", "/* c */", "/*x\ny*/", "/* * / */", "// n\n", "//\n",
                  " /* a */ // b\n /* c */ ", "/* struct s { int a; }; */", "// /* not closed\n", "/***/", "/** doc **/", "\r"]

# white space that may stand INSIDE a two-word basic type (`unsigned int`): no comments there
INNER_WS = ["\t", "\n", "\r\n", "   ", "\r", " \t "]


TRIVIA_QUICK = [" ", "\n", "\r\n", "/**/", "/* c */", "/*x\ny*/", "// n\n", "//\n", " /* a */ // b\n /* c */ ", "/***/"]


def gap_sweep(decls, classes=None, with_spans=False):
    """the specification printed minimally, and once per (gap between two tokens, trivia class)
    with that trivia inserted at that gap only: yields (text, gap, trivia) -- and, with_spans, the
    spans of the basic_type tokens (the white space after the spelling belongs to the token)"""
    toks = []
    for d in decls:
        toks += tokens(d)

    def render(gap=None, triv="", inner=None):
        out = []
        spans = []
        for i, (kind, text) in enumerate(toks):
            if inner is not None and inner[0] == i:
                text = text.replace(" ", inner[1])
            out.append(text)
            nxt = toks[i + 1] if i + 1 < len(toks) else None
            ins = triv if gap == i else ""
            if kind == "BT":
                out.append(" " + ins)          # the atomic basic_type needs white space right after it
                spans.append(text + " " + ins[:len(ins) - len(ins.lstrip(" \t\r\n"))])
                continue
            need = nxt is not None and kind in ("KW", "ID") and nxt[0] in ("KW", "ID", "BT")
            if ins:
                # a comment glues nothing: `a/**/b` are two tokens; keep a blank only where white space is the trivia
                out.append(ins if not need or ins[0] in " \t\r\n/" else " " + ins)
            elif need:
                out.append(" ")
        return "".join(out), spans
    t, sp = render()
    yield (t, None, "", sp) if with_spans else (t, None, "")
    for gap in range(len(toks)):
        for t in (classes or TRIVIA_CLASSES):
            x, sp = render(gap, t)
            yield (x, gap, t, sp) if with_spans else (x, gap, t)
    # ... and every white-space class inside every two-word basic type
    for i, (kind, text) in enumerate(toks):
        if kind == "BT" and " " in text:
            for w in INNER_WS:
                x, sp = render(inner=(i, w))
                yield (x, ("inner", i), w, sp) if with_spans else (x, ("inner", i), w)


# ---------------------------------------------------------------------------------------------
# systematic single-token edits (C14, the tie K1): every declaration form, and at every token
# position every token of the grammar's alphabet substituted, inserted (with and without a
# separating blank) or the token deleted.  Where random mutation samples, this enumerates.

EDIT_ALPHABET = ["const", "enum", "struct", "union", "switch", "case", "default", "void", "typedef",
                 "unsigned", "int", "hyper", "float", "double", "string", "opaque",
                 "=", ";", "{", "}", ",", "<", ">", "[", "]", "*", "(", ")", ":",
                 "x", "int32", "unsigned_", "7", "0x1F", "/*c*/", "//n\n", "/***/"]

EDIT_BASES = [
    [("const", "A", "7")],
    [("enum", "e", [("P", "1"), ("Q", "0x2")])],
    [("struct", "s", [("int", "a", "", False), ("t", "b", "", True), ("unsigned int", "c", "[3]", False)])],
    [("struct", "s", [("opaque", "o", "<>", False), ("string", "n", "<8>", False), ("t", "v", "<N>", False)])],
    [("union", "u", "int", "k", [(["1", "2"], ("data", "hyper", "h")), (["3"], ("void",))], ("data", "t", "d"))],
    [("union", "u", "e", "k", [(["P"], ("void",))], ("falls", ["Q"], ("void",)))],
    [("typedef", "unsigned hyper", "t", "")],
    [("typedef", "opaque", "o", "<16>")],
    [("typedef", "t", "a", "[2]")],
]


def single_edits(bases=None, alphabet=None, kinds=("sub", "del", "ins", "glue")):
    """yields texts; words are separated by one blank so that a substituted token stays a token,
    except in the `glue` variants where the inserted token touches its right neighbour"""
    for decls in (bases or EDIT_BASES):
        toks = []
        for d in decls:
            toks += [t for _, t in tokens(d)]
        yield " ".join(toks)
        for i in range(len(toks) + 1):
            if i < len(toks) and "del" in kinds:
                yield " ".join(toks[:i] + toks[i + 1:])
            for a in (alphabet or EDIT_ALPHABET):
                if i < len(toks) and "sub" in kinds:
                    yield " ".join(toks[:i] + [a] + toks[i + 1:])
                if "ins" in kinds:
                    yield " ".join(toks[:i] + [a] + toks[i:])
                if i < len(toks) and "glue" in kinds and not a.endswith("\n"):
                    yield " ".join(toks[:i] + [a + toks[i]] + toks[i + 1:])
        # every PAIR of adjacent tokens replaced, on the short forms
        if "sub2" in kinds and len(toks) <= 6:
            alpha = alphabet or EDIT_ALPHABET
            for i in range(len(toks) - 1):
                for a in alpha:
                    for b in alpha:
                        yield " ".join(toks[:i] + [a, b] + toks[i + 2:])
