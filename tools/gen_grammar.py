#!/usr/bin/env python3
"""Translator: /repo/src/xdr.pest -> Grammar.v (a `grammar` term of XdrModel.Peg).

A small recursive-descent parser for the subset of pest's grammar syntax that xdr.pest uses:
rules `name = [_@]{ expr }`, string literals, rule references, sequence `~`, ordered choice
`|`, postfix `? * +`, prefix `!`, grouping, `//` comments; built-ins ANY SOI EOI NEWLINE
ASCII_DIGIT ASCII_ALPHANUMERIC ASCII_ALPHA.  Anything else raises TranslatorError.
pest precedence: postfix > prefix > `~` > `|`.
"""
import re
import sys


class TranslatorError(Exception):
    pass


TOKEN = re.compile(r'''
    (?P<ws>\s+) | (?P<comment>//[^\n]*) |
    (?P<str>"(?:[^"\\]|\\.)*") |
    (?P<id>[A-Za-z_][A-Za-z0-9_]*) |
    (?P<op>[=~|?*+!(){}_@$]) | (?P<bad>.)
''', re.X)


def lex(src):
    out = []
    for m in TOKEN.finditer(src):
        k = m.lastgroup
        if k in ("ws", "comment"):
            continue
        if k == "bad":
            raise TranslatorError("unexpected character %r in xdr.pest" % m.group(0))
        out.append((k, m.group(0)))
    return out


def unescape(lit):
    body = lit[1:-1]
    out = []
    i = 0
    while i < len(body):
        c = body[i]
        if c == "\\":
            i += 1
            e = body[i]
            m = {"n": "\n", "t": "\t", "r": "\r", "\\": "\\", '"': '"', "'": "'", "0": "\0"}
            if e not in m:
                raise TranslatorError("unsupported escape \\%s" % e)
            out.append(m[e])
        else:
            out.append(c)
        i += 1
    return "".join(out)


class P:
    def __init__(self, toks):
        self.t = toks
        self.i = 0

    def peek(self):
        return self.t[self.i] if self.i < len(self.t) else (None, None)

    def eat(self, v=None):
        k, x = self.peek()
        if v is not None and x != v:
            raise TranslatorError("expected %r, found %r" % (v, x))
        self.i += 1
        return k, x

    def rules(self):
        rs = []
        while self.i < len(self.t):
            k, name = self.eat()
            if k != "id":
                raise TranslatorError("rule name expected, found %r" % name)
            self.eat("=")
            kind = "Normal"
            if self.peek()[1] == "_":
                self.eat()
                kind = "Silent"
            elif self.peek()[1] == "@":
                self.eat()
                kind = "Atomic"
            elif self.peek()[1] in ("$", "!"):
                raise TranslatorError("rule modifier %s not supported" % self.peek()[1])
            self.eat("{")
            e = self.choice()
            self.eat("}")
            rs.append((name, kind, e))
        return rs

    def choice(self):
        a = self.seq()
        if self.peek()[1] == "|":
            self.eat()
            b = self.choice()      # right-nested, as pest builds it
            return ("Choice", a, b)
        return a

    def seq(self):
        a = self.prefix()
        if self.peek()[1] == "~":
            self.eat()
            b = self.seq()
            return ("Seq", a, b)
        return a

    def prefix(self):
        if self.peek()[1] == "!":
            self.eat()
            return ("Not", self.prefix())
        return self.postfix()

    def postfix(self):
        a = self.atom()
        while self.peek()[1] in ("?", "*", "+"):
            _, op = self.eat()
            a = ({"?": "Opt", "*": "Star", "+": "Plus"}[op], a)
        return a

    def atom(self):
        k, x = self.eat()
        if k == "str":
            return ("Str", unescape(x))
        if k == "id":
            return ("Ref", x)
        if x == "(":
            e = self.choice()
            self.eat(")")
            return e
        raise TranslatorError("unexpected token %r" % x)


def cstr(s):
    # Coq string literal; control characters are written with String (ascii_of_nat n)
    if all(32 <= ord(c) < 127 for c in s):
        return '"' + s.replace('"', '""') + '"'
    out = "EmptyString"
    for c in reversed(s):
        out = "(String (ascii_of_nat %d) %s)" % (ord(c), out)
    return out


BUILTIN = {
    "ANY": "PAny", "SOI": "PSoi", "EOI": "PEoi",
    "NEWLINE": '(PChoice (PStr %s) (PChoice (PStr %s) (PStr %s)))' % (cstr("\n"), cstr("\r\n"), cstr("\r")),
    "ASCII_DIGIT": '(PRange "0"%char "9"%char)',
    "ASCII_ALPHA": '(PChoice (PRange "a"%char "z"%char) (PRange "A"%char "Z"%char))',
    "ASCII_ALPHANUMERIC": '(PChoice (PRange "0"%char "9"%char) (PChoice (PRange "a"%char "z"%char) (PRange "A"%char "Z"%char)))',
}


def emit(e, names):
    k = e[0]
    if k == "Str":
        return "(PStr %s)" % cstr(e[1])
    if k == "Ref":
        if e[1] in names:
            return "(PRef %s)" % cstr(e[1])
        if e[1] in BUILTIN:
            return BUILTIN[e[1]]
        raise TranslatorError("unknown rule or built-in %s" % e[1])
    if k in ("Seq", "Choice"):
        return "(P%s %s %s)" % (k, emit(e[1], names), emit(e[2], names))
    return "(P%s %s)" % (k, emit(e[1], names))


def generate(repo):
    src = open(repo + "/src/xdr.pest").read()
    rules = P(lex(src)).rules()
    names = set(n for n, _, _ in rules)
    for need in ("item", "WHITESPACE", "COMMENT"):
        if need not in names:
            raise TranslatorError("rule %s missing from xdr.pest" % need)
    out = ["(* GENERATED by tools/gen_grammar.py from /repo/src/xdr.pest -- do not edit *)",
           "From XdrModel Require Export Peg.", "Open Scope string_scope.",
           "Definition xdr_grammar : grammar := ["]
    out.append(";\n".join("  (%s, (%s, %s))" % (cstr(n), k, emit(e, names)) for n, k, e in rules))
    out.append("].")
    out.append("Definition xdr_rule_names : list string := [%s]." % "; ".join(cstr(n) for n, _, _ in rules))
    return "\n".join(out) + "\n"


if __name__ == "__main__":
    sys.stdout.write(generate(sys.argv[1] if len(sys.argv) > 1 else "/repo"))
