#!/usr/bin/env python3
"""Translator: regenerate Tables.v (lookup tables of the emitters) from /repo/src.

Only *data* is translated: the two reserved-word escape lists, the TRUE/FALSE arm, the
primitive spelling tables, BasicType::as_str, TRAIT_BOUNDS, DEFAULT_DERIVE and the template
strings.  If the shape of the source around a table is not what is expected, the translator
raises TranslatorError and the check reports a broken tie.
"""
import re
import sys


class TranslatorError(Exception):
    pass


def coq_str(s):
    return '"' + s.replace('"', '""') + '"'


def coq_list(xs):
    return "[" + "; ".join(coq_str(x) for x in xs) + "]"


def strings_in(arm):
    return re.findall(r'"([^"\\]*)"', arm)


def keyword_arm(src, what):
    """the match arm   "as" | "async" | ... => <something with _v>"""
    m = re.search(r'((?:"[A-Za-z_]+"\s*\|\s*)+"[A-Za-z_]+")\s*=>\s*(?:write!\(f,\s*"\{\}_v"|format!\("\{\}_v")', src)
    if not m:
        raise TranslatorError("keyword arm not found in " + what)
    return strings_in(m.group(1))


BT = {"U32": "U32", "I32": "I32", "U64": "U64", "I64": "I64", "F32": "F32", "F64": "F64",
      "String": "TString", "Opaque": "Opaque", "Bool": "TBool"}


def spelling_table(block, what):
    rows = []
    for m in re.finditer(r'((?:"[^"]+"\s*\|\s*)*"[^"]+")\s*=>\s*Self::([A-Za-z0-9]+),', block):
        ctor = m.group(2)
        if ctor not in BT:
            raise TranslatorError("unknown BasicType constructor %s in %s" % (ctor, what))
        for s in strings_in(m.group(1)):
            rows.append((s, BT[ctor]))
    if not rows:
        raise TranslatorError("no spelling rows in " + what)
    if not re.search(r's\s*=>\s*Self::Ident\(s\.to_string\(\)\)', block):
        raise TranslatorError("fallback arm missing in " + what)
    return rows


def generate(repo):
    mod_rs = open(repo + "/src/impls/mod.rs").read()
    bt_rs = open(repo + "/src/ast/basic_type.rs").read()
    types_rs = open(repo + "/src/impls/types.rs").read()
    lib_rs = open(repo + "/src/lib.rs").read()
    tmpl_rs = open(repo + "/src/impls/template/bytes.rs").read()
    tmod_rs = open(repo + "/src/impls/template/mod.rs").read()

    # SafeName
    i = mod_rs.find("struct SafeName")
    j = mod_rs.find("struct NonDigitName")
    if i < 0 or j < 0:
        raise TranslatorError("SafeName / NonDigitName not found")
    safe_block = mod_rs[i:j]
    safe_kw = keyword_arm(safe_block, "impls/mod.rs SafeName")
    m = re.search(r'((?:"[A-Z]+"\s*\|\s*)*"[A-Z]+")\s*=>\s*write!\(f,\s*"\{\}",\s*self\.0\.as_ref\(\)\.to_lowercase\(\)\)', safe_block)
    if not m:
        raise TranslatorError("SafeName lowercase arm not found")
    safe_lower = strings_in(m.group(1))
    if not re.search(r'_\s*=>\s*write!\(f,\s*"\{\}",\s*self\.0\.as_ref\(\)\)', safe_block):
        raise TranslatorError("SafeName fallback arm not found")
    nd_block = mod_rs[j:]
    if not re.search(r'if c\.is_numeric\(\)\s*\{\s*write!\(f,\s*"v_"\)\?;', nd_block):
        raise TranslatorError("NonDigitName shape changed")

    # BasicType::as_safe_string
    i = bt_rs.find("fn as_safe_string")
    j = bt_rs.find("fn is_opaque")
    if i < 0 or j < 0:
        raise TranslatorError("as_safe_string not found")
    ass = bt_rs[i:j]
    bt_kw = keyword_arm(ass, "basic_type.rs as_safe_string")
    m = re.search(r'((?:"[A-Z]+"\s*\|\s*)*"[A-Z]+")\s*=>\s*name\.to_lowercase\(\)', ass)
    if not m:
        raise TranslatorError("as_safe_string lowercase arm not found")
    bt_lower = strings_in(m.group(1))

    # as_str
    i = bt_rs.find("fn as_str")
    j = bt_rs.find("fn as_safe_string")
    as_str = {}
    for m in re.finditer(r'Self::([A-Za-z0-9]+)\s*=>\s*"([^"]+)"', bt_rs[i:j]):
        as_str[m.group(1)] = m.group(2)
    for k in BT:
        if k not in as_str:
            raise TranslatorError("as_str arm for %s missing" % k)

    # From<&str> and From<String>
    i = bt_rs.find("impl<'a> From<&'a str> for BasicType")
    j = bt_rs.find("impl<'a> From<String> for BasicType")
    if i < 0 or j < 0 or j < i:
        raise TranslatorError("From impls not found")
    from_str = spelling_table(bt_rs[i:j], "From<&str>")
    from_string = spelling_table(bt_rs[j:], "From<String>")
    for blk in (bt_rs[i:j], bt_rs[j:]):
        if 'v.split_whitespace().collect::<Vec<_>>().join(" ")' not in blk or "match v.as_str()" not in blk:
            raise TranslatorError("From impl no longer normalises whitespace the way the model does")

    m = re.search(r'const TRAIT_BOUNDS: &str = "([^"]*)";', types_rs)
    if not m:
        raise TranslatorError("TRAIT_BOUNDS not found")
    trait_bounds = m.group(1)
    m = re.search(r'pub const DEFAULT_DERIVE: &str = "([^"]*)";', lib_rs)
    if not m:
        raise TranslatorError("DEFAULT_DERIVE not found")
    default_derive = m.group(1)

    # templates
    def tmpl(name):
        m = re.search(r'impl FromTemplate for %s \{(.*?)\n\}' % name, tmpl_rs, re.S)
        if not m:
            raise TranslatorError("template %s not found" % name)
        b = m.group(1)
        tn = re.search(r'fn type_name\(&self\)[^{]*\{\s*"([^"]*)"', b)
        tf = re.search(r'fn try_from\(&self\)[^{]*\{\s*"([^"]*)"', b)
        rt = re.search(r'ReferenceType::(ByValue|ByRef)', b)
        if not (tn and tf and rt):
            raise TranslatorError("template %s shape changed" % name)
        return tn.group(1), tf.group(1), rt.group(1)

    t_bytes = tmpl("Bytes")
    t_ref = tmpl("RefMutBytes")
    refs = dict(re.findall(r'ReferenceType::(ByValue|ByRef)\s*=>\s*"([^"]*)"', tmod_rs))
    if set(refs) != {"ByValue", "ByRef"}:
        raise TranslatorError("ReferenceType display changed")

    out = []
    out.append("(* GENERATED by tools/gen_tables.py from /repo/src -- do not edit *)")
    out.append("From XdrModel Require Export Ast.")
    out.append("Open Scope string_scope.")
    out.append("Definition safe_keywords : list string := %s." % coq_list(safe_kw))
    out.append("Definition safe_lowercase : list string := %s." % coq_list(safe_lower))
    out.append("Definition bt_keywords : list string := %s." % coq_list(bt_kw))
    out.append("Definition bt_lowercase : list string := %s." % coq_list(bt_lower))
    out.append("Definition trait_bounds : string := %s." % coq_str(trait_bounds))
    out.append("Definition default_derive : string := %s." % coq_str(default_derive))
    for nm, rows in (("spellings_str", from_str), ("spellings_string", from_string)):
        out.append("Definition %s : list (string * basic_type) := [%s]." % (
            nm, "; ".join("(%s, %s)" % (coq_str(s), c) for s, c in rows)))
    out.append("Definition as_str_table : list (basic_type * string) := [%s]." % "; ".join(
        "(%s, %s)" % (BT[k], coq_str(as_str[k])) for k in BT))
    out.append("Record template := { t_type_name : string; t_try_from : string; t_ref : string }.")
    out.append("Definition tmpl_bytes : template := {| t_type_name := %s; t_try_from := %s; t_ref := %s |}." % (
        coq_str(t_bytes[0]), coq_str(t_bytes[1]), coq_str(refs[t_bytes[2]])))
    out.append("Definition tmpl_refmut : template := {| t_type_name := %s; t_try_from := %s; t_ref := %s |}." % (
        coq_str(t_ref[0]), coq_str(t_ref[1]), coq_str(refs[t_ref[2]])))
    return "\n".join(out) + "\n"


if __name__ == "__main__":
    repo = sys.argv[1] if len(sys.argv) > 1 else "/repo"
    sys.stdout.write(generate(repo))
