#!/bin/bash
# compile one file of the development directly (outside make)
cd /verif/coq && timeout ${2:-600} coqc -Q theories/Model XdrModel -Q theories/Proofs XdrProofs -Q theories/Props XdrProps $1 2>&1 | grep -v "^Warning\|abstract-large-number\|^\[" | head -${3:-30}
