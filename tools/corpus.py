"""The decoder corpus shared by the run-time properties (C01-C09): specifications, the real
generated modules compiled into the runner, generated values / encodings / hostile inputs,
the real observations, and the K2/K3/K4 correspondence results.  Cached per source hash."""
import hashlib
import os
import pickle
import random
import struct
import time

import specgen
import valgen
import xv
from xv import log

CORPUS_VERSION = "25"

BOUNDARY = [0, 1, 2, 3, 0xffff, 0x10000, 0x7fffffff, 0x80000000, 0xfffffffe, 0xffffffff]


# every kind of element whose encoding is not a whole number of its raw payload bytes, inside
# counted / fixed / bounded arrays followed by a sentinel: a wrong per-element size shows up
# from the second element on (dense_cases gives every array 2 or 3 elements)
ELEM_SPECS = [
    "struct e5 { unsigned int id; opaque tag[5]; };\nstruct e6 { unsigned int id; opaque tag[6]; };\nstruct e7 { opaque tag[7]; };\n"
    "struct l5 { e5 items<>; unsigned int tail; };\nstruct l6 { e6 items<16>; unsigned int tail; };\nstruct l7 { e7 items<>; };\n"
    "struct f7 { e7 two[2]; e6 upto<3>; unsigned int tail; };\ntypedef e6 e6list<>;\nstruct w6 { e6list l; unsigned int tail; };\n",
    "const N3 = 3;\nconst N5 = 5;\nconst N6 = 6;\nconst N7 = 7;\n"
    "struct c5 { unsigned int id; opaque tag[N5]; };\nstruct c6 { opaque tag[N6]; hyper h; };\nstruct c7 { opaque tag[N7]; };\n"
    "typedef opaque t3[N3];\nstruct ct { t3 a; t3 b; };\n"
    "struct lc5 { c5 items<>; unsigned int tail; };\nstruct lc6 { c6 items<N7>; unsigned int tail; };\nstruct lc7 { c7 items<>; };\n"
    "struct lct { ct items<>; ct two[2]; unsigned int tail; };\n",
    "typedef opaque t2[2];\nstruct es { string s<>; };\nstruct es5 { string s<5>; bool b; };\n"
    "union eu switch (unsigned int k) { case 1: t2 tag; case 2: string s; case 3: es5 e; default: void; };\n"
    "struct eo { es *p; opaque tag[1]; };\n"
    "struct ls { es items<>; unsigned int tail; };\nstruct ls5 { es5 items<4>; unsigned int tail; };\n"
    "struct lu { eu items<>; unsigned int tail; };\nstruct lo { eo items<>; eo two[2]; unsigned int tail; };\n",
    # long fixed arrays of every primitive (an emitter that treats arrays above some length
    # differently -- unrolled reads vs a loop or a single length check -- has a threshold)
    "const BLOCK = 40;\ntypedef double grid[BLOCK];\n"
    "struct wave { unsigned int rate; hyper stamps[BLOCK]; double samples[BLOCK]; float fs[33]; };\n"
    "struct wave2 { int is[64]; unsigned hyper uh[34]; bool bs[36]; unsigned int tail; };\n",
    "enum colour { RED = 0, GREEN = 1, BLUE = 2 };\ntypedef colour clist<>;\n"
    "struct pal { colour xs<>; unsigned int tail; };\nstruct pal2 { clist c; colour ys<1073741825>; };\n"
    "typedef colour cfix[3];\nstruct pal3 { cfix three; clist more<2>; };\n",
]


def wrap_counts(actual, rng, tier):
    """counts whose product with a small element size wraps 32 bits: k*2^s + j"""
    vals = set()
    for s in (28, 29, 30, 31):
        for k in (1, 3, 5, 7):
            if k * 2 ** s >= 2 ** 32:
                continue
            for j in (0, 1, actual):
                vals.add((k * 2 ** s + j) % 2 ** 32)
    vals = sorted(vals)
    return rng.sample(vals, 10) if tier != "quick" else rng.sample(vals, 4)


class DenseRng(random.Random):
    """array counts 2 or 3 wherever valgen would choose among 0..3"""

    def choice(self, seq):
        if list(seq) == [0, 1, 2, 3]:
            return super().choice([2, 3])
        return super().choice(seq)


def dense_cases(rng, cx, types, tier):
    cases = []
    r = DenseRng(rng.getrandbits(32))
    for ty in types:
        for _ in range(2):
            try:
                x = valgen.gen_named(cx, ty, r, 4, valgen.size_picker(r))
            except valgen.Unsupported:
                continue
            e = valgen.enc(x)
            if len(e) > 2500:
                continue
            cases.append({"type": ty, "off": 0, "input": e, "kind": "valid", "x": x, "expect": valgen.expected_line(x, 0)})
            cases.append({"type": ty, "off": 2, "input": e + b"\x09\x08\x07", "kind": "valid_ctx", "x": x,
                          "expect": valgen.expected_line(x, 2)})
            for c in range(len(e)):
                cases.append({"type": ty, "off": 0, "input": e[:c], "kind": "prefix", "full": len(e)})
            for (o, kind, info) in valgen.marks(cx, None, x, 0, []):
                if kind == "count":
                    for v in wrap_counts(info, rng, "thorough"):
                        cases.append({"type": ty, "off": 0, "input": e[:o] + struct.pack(">I", v) + e[o + 4:], "kind": "wrapcount", "at": o})
    return cases


def tools_hash():
    h = hashlib.sha256()
    base = os.path.dirname(os.path.abspath(__file__))
    for d in (base, os.path.join(xv.VERIF, "harness"), os.path.join(xv.COQ, "theories", "Model")):
        for root, _, files in os.walk(d):
            for f in sorted(files):
                if f.endswith((".py", ".rs", ".toml", ".v")) and f not in ("Tables.v", "Grammar.v", "checks.py", "gen_manifest.py"):
                    h.update(open(os.path.join(root, f), "rb").read())
    return h.hexdigest()[:12]


def quick_specs(seed, tier):
    rng = random.Random(seed)
    m = specgen.matrix()
    if tier == "quick":
        picked = m
        n_random = 30
    else:
        picked = m
        n_random = 150
    out = [("matrix", s) for s in picked]
    for i in range(n_random):
        r = random.Random(seed * 7919 + i)
        decls = specgen.random_spec(r, 8 if tier == "quick" else 14)
        out.append(("random", specgen.print_spec(decls)))
    # a few fixed ones: the defect witnesses of DESIGN.md section 6 and deep recursion
    fixed = [
        "struct inner { unsigned int a; opaque data<>; };\nstruct holder { inner items<>; };\n",
        "typedef opaque fixed8[8];\nstruct h8 { fixed8 a; fixed8 b<2>; };\n",
        "struct fix3 { opaque d[3]; };\n",
        "struct big { hyper a; hyper b; hyper c; hyper d; };\nstruct bigs { big xs<>; };\n",
        "union ud switch (unsigned int k) { case 1: unsigned hyper h; default: unsigned int d; };\n",
        "union bothvoid switch (bool flag) { case TRUE: void; case FALSE: void; };\n",
        "struct node { unsigned int val; node *next; };\n",
        "typedef opaque fh<8>;\nstruct usefh { fh h; };\n",
        "struct bigmsg { opaque sid[12]; opaque verf<16>; int seq; opaque data<>; opaque tag<8>; };\n",
        "typedef opaque smallfh<12>;\nstruct bigwrap { smallfh fh; opaque payload<>; smallfh fh2; };\n",
        "struct z { opaque a<>; };\nstruct zs { z items<>; };\n",
        "union onlyvoid switch (int k) { case 0: void; };\nstruct ovs { onlyvoid marks<>; unsigned int tail; };\n",
        "union voiddef switch (unsigned int k) { default: void; };\nstruct vds { voiddef marks<4>; voiddef one; };\n",

        "const N = 4;\nconst M = 2;\nstruct onechar { int a[N]; opaque d<N>; string s<M>; onechar *q; };\ntypedef opaque v1[N];\ntypedef onechar w1<M>;\n",
        "union fallsdef switch (int k) { case 1: int a; case 2: case 3: default: unsigned hyper rest; };\n",
        "const N = 2;\nstruct leaf { string s<4>; };\nstruct mid { leaf ls<N>; leaf lf[N]; };\nstruct top { mid m; mid *om; mid ms<>; };\n",
        # a void default written before / between other arms (finding F14), enum-member and
        # TRUE/FALSE labels on void arms next to a void default
        "enum stat { OK = 0, DENIED = 1, RETRY = 2 };\nconst SEVEN = 7;\n"
        "union reply switch (stat s) { case OK: unsigned int v; case DENIED: void; case RETRY: void; default: void; };\n"
        "union dfirst switch (int k) { default: void; case 1: void; case 2: int x; case 3: void; };\n"
        "union dfirst2 switch (stat s) { default: void; case DENIED: void; case OK: hyper h; };\n"
        "union bdef switch (bool b) { case TRUE: void; default: void; };\n"
        "union bdef2 switch (bool b) { default: void; case FALSE: void; };\n"
        "union cdef switch (unsigned int k) { case 1: default: void; case SEVEN: void; case 9: unsigned hyper uh; };\n"
        "struct replies { reply r<>; dfirst d<>; dfirst2 e[2]; cdef c; bdef2 b; };\n",
        # enum members as labels of an INTEGER discriminant, mixed with literals and constants in
        # fall-through groups (the emitted arm is a guard `c if c == E::M as u32`)
        "enum ftype { F_REG = 1, F_DIR = 2, F_LNK = 5, F_BIG = 0x7fffffff };\nconst ZERO = 0;\n"
        "union fmix switch (unsigned int k) { case 0: case F_REG: unsigned int size; case 7: case F_DIR: hyper h; case F_LNK: void; case 9: case F_BIG: void; default: void; };\n"
        "union fmix2 switch (int k) { case ZERO: case F_DIR: int a; case F_REG: void; };\n"
        "struct fholder { fmix a<>; fmix2 b; };\n",
        "enum gtype { G_A = 1, G_B = 4 };\n"
        "union gmix switch (unsigned int k) { case G_B: case G_A: case 3: string s; default: unsigned hyper rest; };\n"
        "struct gholder { gmix c[2]; };\n",
        # mutual recursion with the opaque data declared late (the generic index must not depend on
        # which member of a cycle is visited first)
        "const MAX_NAME = 8;\nstruct folder { unsigned int id; fentry entries<>; opaque acl<>; };\n"
        "struct fentry { string name<MAX_NAME>; folder sub<1>; };\ntypedef fentry listing<>;\n"
        "union lookup_res switch (bool ok) { case TRUE: fentry e; case FALSE: void; };\n",
        "struct ma { mb *next; unsigned int x; };\nstruct mb { mc items<2>; };\nstruct mc { ma *back; md leaf; };\n"
        "typedef opaque md<16>;\n",
        # a counted array reachable from its own element type (finding F15: every nesting level
        # reserves min(count, remaining) elements, so the total is quadratic in the input)
        "struct tnest { unsigned int v; tnest kids<>; };\n",
        # several optional links of the struct's own type (binary tree, prev/next): whatever walks
        # "the" link must walk all of them
        "struct tnode { int v; tnode *left; tnode *right; };\nstruct forest { tnode trees<>; unsigned int trailer; };\n"
        "struct dl { dl *prev; opaque tag<4>; dl *next; unsigned hyper id; };\n",
        # a union over an enum, no default, with cases for only SOME members: a member without a
        # case is a valid enum word and an unknown discriminant of the union
        "enum lock_kind { LK_NONE = 0, LK_READ = 1, LK_WRITE = 2, LK_UPGRADE = 7 };\n"
        "union lock_arg switch (lock_kind kind) { case LK_READ: unsigned int shared; case LK_WRITE: hyper excl; };\n"
        "union lock_void switch (lock_kind kind) { case LK_UPGRADE: void; case LK_NONE: void; };\n"
        "struct lock_batch { lock_arg locks<8>; lock_void v[2]; };\n",
    ]
    out += [("fixed", s) for s in fixed]
    out += [("elem", s) for s in ELEM_SPECS]
    # zero-wire-size array elements: only well-formed inputs (a count of 2^32-1 is then a
    # legitimate 4-byte encoding of 4 billion elements; see DESIGN.md section 5)
    out.append(("fixed_validonly", "struct marker { opaque pad[0]; };\nstruct holder0 { marker marks<>; unsigned int tail; };\n"))
    return out


def gen_cases(rng, cx, ast, types, tier, valid_only=False):
    """returns list of dict(type, off, input(bytes), kind, expect(optional), x(optional))"""
    cases = []
    nvals = 2 if tier == "quick" else 5
    for ty in types:
        t = cx.types.get(ty)
        picks = [None] * nvals
        if t and "Union" in t:
            try:
                n_ch = len(valgen.union_choices(cx, t["Union"])) + 1
            except valgen.Unsupported:
                n_ch = 1
            picks = list(range(n_ch)) + [None] * max(0, nvals - n_ch)
        for pick in picks:
            sizes = valgen.size_picker(rng)
            try:
                if pick is None:
                    x = valgen.gen_named(cx, ty, rng, rng.choice([2, 3, 5]), sizes)
                else:
                    x = valgen.gen_named(cx, ty, rng, rng.choice([2, 3, 5]), sizes, choice=pick)
            except valgen.Unsupported:
                continue
            e = valgen.enc(x)
            if len(e) > 4096:
                continue
            cases.append({"type": ty, "off": 0, "input": e, "kind": "valid", "x": x,
                          "expect": valgen.expected_line(x, 0)})
            # the same value at another offset with a suffix
            sfx = bytes(rng.getrandbits(8) for _ in range(rng.choice([1, 4, 7])))
            off = rng.choice([1, 3, 8])
            cases.append({"type": ty, "off": off, "input": e + sfx, "kind": "valid_ctx", "x": x,
                          "expect": valgen.expected_line(x, off)})
            # strict prefixes: every byte-granular one when short, sampled when long
            cuts = list(range(len(e)))
            if len(cuts) > (12 if tier == "quick" else 60):
                cuts = sorted(rng.sample(cuts, 12 if tier == "quick" else 60))
            for c in cuts:
                cases.append({"type": ty, "off": 0, "input": e[:c], "kind": "prefix", "full": len(e)})
            if valid_only:
                continue
            # boundary values in every word
            nwords = len(e) // 4
            widx = list(range(nwords))
            if len(widx) > (6 if tier == "quick" else 24):
                widx = sorted(rng.sample(widx, 6 if tier == "quick" else 24))
            for w in widx:
                vals = rng.sample(BOUNDARY, 5) if tier != "quick" else rng.sample(BOUNDARY, 2)
                for v in vals:
                    m = e[:4 * w] + struct.pack(">I", v) + e[4 * w + 4:]
                    if m != e:
                        cases.append({"type": ty, "off": 0, "input": m, "kind": "word"})
            # targeted: control words with a known expected error
            ms = valgen.marks(cx, None, x, 0, [])
            for (o, kind, info) in ms:
                if kind == "optmark":
                    for v in (2, 0xffffffff):
                        cases.append({"type": ty, "off": 0, "input": e[:o] + struct.pack(">I", v) + e[o + 4:],
                                      "kind": "optmark", "expect_err": "UnknownOptionVariant(%d)" % v, "at": o})
                elif kind == "bool":
                    for v in (2, 0x100, 0xffffffff):
                        cases.append({"type": ty, "off": 0, "input": e[:o] + struct.pack(">I", v) + e[o + 4:],
                                      "kind": "bool", "expect_err": "InvalidBoolean", "at": o})
                elif kind == "enum":
                    et = cx.types.get(info)
                    members = set(v["value"]["Num"] for v in et["Enum"]["variants"] if "Num" in v["value"])
                    for v in (0x7ffffffe, 0xffffffff, 6, 0x80000000):
                        sv = v - 2 ** 32 if v >= 2 ** 31 else v
                        if sv not in members:
                            cases.append({"type": ty, "off": 0, "input": e[:o] + struct.pack(">I", v) + e[o + 4:],
                                          "kind": "enum", "expect_err": "UnknownVariant(%d)" % sv, "at": o})
                elif kind == "strlen" and info > 0:
                    bad = bytearray(e)
                    bad[o + 4] = 0xff
                    cases.append({"type": ty, "off": 0, "input": bytes(bad), "kind": "utf8",
                                  "expect_err": "NonUtf8String", "at": o})
                elif kind == "disc":
                    u = cx.types[info]["Union"]
                    if u["default"] is None and "default" not in u["void_cases"]:
                        try:
                            d = valgen.undeclared_disc(cx, u, rng)
                        except valgen.Unsupported:
                            d = None
                        if d is not None and d[0] in ("U32", "I32"):
                            v = d[1]
                            sv = v - 2 ** 32 if v >= 2 ** 31 else v
                            cases.append({"type": ty, "off": 0,
                                          "input": e[:o] + struct.pack(">I", v % 2 ** 32) + e[o + 4:],
                                          "kind": "disc", "expect_err": "UnknownVariant(%d)" % sv, "at": o})
                if kind in ("count", "oplen", "strlen") and not valid_only:
                    for v in wrap_counts(info, rng, tier):
                        cases.append({"type": ty, "off": 0, "input": e[:o] + struct.pack(">I", v) + e[o + 4:],
                                      "kind": "wrapcount", "at": o})
            # a count one above the declared maximum, with the data present
            for excess in (1, 2, 3, 4, 5):
                try:
                    xo = over_max_value(cx, ty, rng, excess)
                except valgen.Unsupported:
                    xo = None
                if xo is not None:
                    cases.append({"type": ty, "off": 0, "input": valgen.enc(xo), "kind": "overmax",
                                  "expect_err": "InvalidLength"})
        if valid_only:
            continue
        # arbitrary word sequences
        for _ in range(3 if tier == "quick" else 8):
            n = rng.choice([0, 1, 2, 3, 5, 8, 16])
            ws = b"".join(struct.pack(">I", rng.choice(BOUNDARY + [rng.getrandbits(32), 4, 5, 8])) for _ in range(n))
            cases.append({"type": ty, "off": 0, "input": ws, "kind": "random"})
        for w in (0xffffffff, 0x10000, 0x00ffffff, 0x80000000):
            cases.append({"type": ty, "off": 0, "input": struct.pack(">I", w) * 2, "kind": "hugecount"})
    return cases


def special_cases(obs, types, failed_idx, rng):
    """large messages (a small opaque in front of / behind > 64 KiB of payload) and the
    zero-wire-size element probe of finding F1"""
    out = []
    for o in obs:
        i = o["index"]
        if i not in types or i in failed_idx:
            continue
        if "bigmsg" in types[i]:
            for n in (70000, 140001):
                x = ("Struct", "bigmsg", [("OpaqueF", bytes(range(12))), ("OpaqueV", bytes(range(9))), ("I32", -5),
                                          ("OpaqueV", bytes((k * 7) % 256 for k in range(n))), ("OpaqueV", b"tail")])
                for off in (0, 5):
                    out.append({"spec": i, "type": "bigmsg", "off": off, "input": valgen.enc(x) + b"\x01\x02", "kind": "valid_big",
                                "x": x, "expect": valgen.expected_line(x, off)})
        if "bigwrap" in types[i]:
            x = ("Struct", "bigwrap", [("Alias", "smallfh", ("OpaqueV", b"0123456789ab")),
                                       ("OpaqueV", bytes((k * 3) % 256 for k in range(100000))),
                                       ("Alias", "smallfh", ("OpaqueV", b"xy"))])
            out.append({"spec": i, "type": "bigwrap", "off": 0, "input": valgen.enc(x), "kind": "valid_big",
                        "x": x, "expect": valgen.expected_line(x, 0)})
        if "holder0" in types[i]:
            # zero-wire-size elements: any count is a valid encoding, also one larger than the
            # number of bytes that follow
            for k in (5, 9, 40):
                x = ("Struct", "holder0", [("ArrV", [("Struct", "marker", [("OpaqueF", b"")])] * k), ("U32", 7)])
                for off, sfx in ((0, b""), (3, b"\x01"), (0, b"\x00" * 12)):
                    out.append({"spec": i, "type": "holder0", "off": off, "input": valgen.enc(x) + sfx,
                                "kind": "valid" if not sfx else "valid_ctx", "x": x, "expect": valgen.expected_line(x, off)})
        if "tnest" in types[i]:
            for depth in (4, 32, 256, 1000):
                out.append({"spec": i, "type": "tnest", "off": 0, "input": struct.pack(">II", 7, 0x00ffffff) * depth, "kind": "nest"})
            # and a well-formed chain of the same depth
            for depth in (4, 32, 256):
                x = ("Struct", "tnest", [("U32", depth), ("ArrV", [])])
                for k in range(depth):
                    x = ("Struct", "tnest", [("U32", k), ("ArrV", [x])])
                out.append({"spec": i, "type": "tnest", "off": 0, "input": valgen.enc(x), "kind": "valid", "x": x,
                            "expect": valgen.expected_line(x, 0)})
        if "zs" in types[i]:
            for cnt in (3, 0x800):
                out.append({"spec": i, "type": "zs", "off": 0, "input": struct.pack(">I", cnt) + b"\0" * 8, "kind": "zerosize"})
    return out


class OverCtx(valgen.Ctx):
    """a context that lets exactly one bounded position exceed its maximum by one"""

    def __init__(self, ast, excess=1):
        super().__init__(ast)
        self.armed = True
        self.fired = False
        self.excess = excess

    def max_val(self, s):
        m = super().max_val(s)
        if s is not None and m is not None and self.armed and m < 64:
            self.armed = False
            self.fired = True
            self.force = m + self.excess
            return m + self.excess
        return m


def over_max_value(cx, ty, rng, excess=1):
    ocx = OverCtx(cx.ast, excess)

    def sizes(m):
        if getattr(ocx, "force", None) is not None:
            f = ocx.force
            ocx.force = None
            return f
        return min(3, m if m is not None else 3)

    # arrays: gen_pos picks k = min(m, choice); force the maximal count
    class R(random.Random):
        pass
    r = R(rng.getrandbits(32))
    orig_choice = r.choice

    def choice(seq):
        if getattr(ocx, "force", None) is not None and list(seq) == [0, 1, 2, 3]:
            f = ocx.force
            ocx.force = None
            return f
        return orig_choice(seq)
    r.choice = choice
    x = valgen.gen_named(ocx, ty, r, 6, sizes)
    if not ocx.fired or getattr(ocx, "force", None) is not None:
        return None
    return x


_GEN_CTX = None


def _gen_one(o):
    seed, tier, specs, types = _GEN_CTX
    i = o["index"]
    rng = random.Random(seed * 1000003 + i * 31 + 5)
    cx = valgen.Ctx(o["ast"])
    cs = gen_cases(rng, cx, o["ast"], types[i], tier, valid_only=(specs[i][0] == "fixed_validonly"))
    if specs[i][0] == "elem":
        cs += dense_cases(rng, cx, types[i], tier)
    for c in cs:
        c["spec"] = i
    return cs


def build(tier, seed):
    key = "%s_%s_%s_%d_%s" % (xv.src_hash(), tools_hash(), tier, seed, CORPUS_VERSION)
    path = os.path.join(xv.WORK, "cache", "corpus_%s.pkl" % key)
    if os.path.exists(path):
        return pickle.load(open(path, "rb"))
    t0 = time.time()
    specs = quick_specs(seed, tier)
    obs = xv.run_front([s for _, s in specs], "corpus_%s" % tier)
    log("corpus: front on %d specs %.0fs" % (len(specs), time.time() - t0))
    C = {"specs": specs, "obs": obs, "tier": tier, "seed": seed, "key": key}
    # K2 on all
    n2, dis2, bad_header = xv.k2(obs, "corpus_%s" % tier)
    C["k2"] = {"n": n2, "dis": dis2, "bad_header": bad_header}
    log("corpus: K2 %d cases, %d disagreements %.0fs" % (n2, len(dis2), time.time() - t0))
    # compile
    mods = [(o["index"], o["gen_default"]["path"], o["ast"]) for o in obs
            if o["ast"]["outcome"] == "ok" and o["gen_default"]["outcome"] == "ok"]
    exe, types, failed = xv.build_runner(mods, "corpus_%s" % tier)
    C["compile_failed"] = [(i, msg[-3000:]) for i, msg in failed]
    C["types"] = types
    log("corpus: runner built (%d modules, %d failed) %.0fs" % (len(mods), len(failed), time.time() - t0))
    sizes = xv.runner_sizes(exe)
    C["sizes"] = sizes
    # cases
    rng = random.Random(seed * 31 + 5)
    allcases = []
    failed_idx = set(i for i, _ in failed)
    todo = [o for o in obs if o["index"] in types and o["index"] not in failed_idx]
    # one PRNG per specification (derived from the seed), so the work can be spread over processes
    global _GEN_CTX
    _GEN_CTX = (seed, tier, specs, types)
    import multiprocessing
    with multiprocessing.get_context("fork").Pool(16) as pool:
        for cs in pool.imap(_gen_one, todo, chunksize=4):
            allcases += cs
    allcases += special_cases(obs, types, failed_idx, rng)
    lines = xv.run_runner(exe, ["%d %s %d %s" % (c["spec"], c["type"], c["off"], c["input"].hex()) for c in allcases])
    # metamorphic context: every hostile input the decoder ACCEPTS is decoded again at another
    # offset of a larger allocation and with other bytes behind it (C03: the result may depend
    # on neither) -- the well-formed encodings have their own valid_ctx twin
    crng = random.Random(seed * 17 + 3)
    acc = [n for n, (c, l) in enumerate(zip(allcases, lines))
           if c["kind"] not in ("valid", "valid_ctx", "valid_big", "prefix") and l.startswith("REF OK") and len(c["input"]) <= 4096]
    if len(acc) > (4000 if tier == "quick" else 60000):
        acc = sorted(crng.sample(acc, 4000 if tier == "quick" else 60000))
    twins = []
    for n in acc:
        c = allcases[n]
        sfx = bytes(crng.getrandbits(8) for _ in range(crng.choice([1, 3, 4, 9])))
        twins.append({"spec": c["spec"], "type": c["type"], "off": crng.choice([1, 2, 7, 12]), "input": c["input"] + sfx,
                      "kind": "ctx2", "base": n})
    if twins:
        lines += xv.run_runner(exe, ["%d %s %d %s" % (c["spec"], c["type"], c["off"], c["input"].hex()) for c in twins])
        allcases += twins
    for c, l in zip(allcases, lines):
        if len(l) > 60000 and c["kind"] != "valid_big":
            c["huge"] = len(l)
            l = l[:200] + " ...HUGE(%d)" % len(l)
            c["kind"] = c["kind"] + "_huge"
        c["real"] = l
    C["cases"] = allcases
    log("corpus: %d cases run %.0fs" % (len(allcases), time.time() - t0))
    # K3: model vs real on every case
    by_spec = {}
    for n, c in enumerate(allcases):
        if c["kind"] != "valid_big" and "huge" not in c:
            by_spec.setdefault(c["spec"], []).append(n)
    lookup = {o["index"]: o for o in obs}
    groups, gmap = [], []
    for i, ns in by_spec.items():
        groups.append((lookup[i]["ast"], [(allcases[n]["type"], allcases[n]["off"], allcases[n]["input"].hex(),
                                           allcases[n]["real"]) for n in ns]))
        gmap.append(ns)
    n3, dis3 = xv.k3(groups, "corpus_%s" % tier)
    C["k3"] = {"n": n3, "dis": [gmap[gi][ci] for gi, ci in dis3]}
    log("corpus: K3 %d cases, %d disagreements %.0fs" % (n3, len(dis3), time.time() - t0))
    # K4: Spec.v vs the Python mirror on the valid cases
    C["k4"] = k4(allcases, lookup, "corpus_%s" % tier)
    log("corpus: K4 %d cases, %d disagreements %.0fs" % (C["k4"]["n"], len(C["k4"]["dis"]), time.time() - t0))
    C["wall"] = time.time() - t0
    os.makedirs(os.path.dirname(path), exist_ok=True)
    pickle.dump(C, open(path, "wb"))
    return C


def k4(allcases, lookup, tag):
    import coqterm as ct
    idx = [n for n, c in enumerate(allcases) if c["kind"] in ("valid", "valid_ctx")]
    by_spec = {}
    for n in idx:
        by_spec.setdefault(allcases[n]["spec"], []).append(n)
    items = list(by_spec.items())
    shards = xv.shard(items, 16)

    def run(sh_i):
        si, sh = sh_i
        body = ["From XdrModel Require Import SpecB.", "Open Scope string_scope."]
        evals = []
        for k, (i, ns) in enumerate(sh):
            rows = []
            for n in ns:
                c = allcases[n]
                x = c["x"]
                e = valgen.enc(x)
                rows.append("(%d%%N, %s, %s, %d%%N, %s, %s, %s)" % (
                    n, ct.cstr(c["type"]), valgen.to_coq(x), c["off"], ct.cstr(e.hex()),
                    ct.cstr(c["expect"]), "true" if valgen.step_exact(x) else "false"))
            body.append("Definition a%d : ast := %s." % (k, ct.ast(lookup[i]["ast"])))
            body.append("Definition c%d : list (N * string * xval * N * string * string * bool) := [%s]." % (k, ";\n".join(rows)))
            evals.append("k4_run a%d c%d" % (k, k))
        if not evals:
            return []
        body.append("Eval vm_compute in ((%s)%%list)." % " ++ ".join(evals))
        out = xv.coq_eval("k4_%s_%d" % (tag, si), "\n".join(body))
        return xv.parse_nums(out)

    res = xv.par(run, list(enumerate(shards)))
    return {"n": len(idx), "dis": [x for r in res for x in r]}
