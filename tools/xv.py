"""Shared machinery of the fastxdr verification checks: building the harnesses against
/repo's working tree, running the translators, building the Coq development, running the
correspondence checks and writing evidence."""
import hashlib
import json
import os
import re
import shutil
import subprocess
import sys
import time
from concurrent.futures import ThreadPoolExecutor

sys.path.insert(0, os.path.dirname(os.path.abspath(__file__)))
import coqterm as ct  # noqa: E402
import gen_tables  # noqa: E402

VERIF = os.path.dirname(os.path.dirname(os.path.abspath(__file__)))
REPO = os.environ.get("VERIF_REPO", "/repo")
WORK = os.path.join(VERIF, "work")
COQ = os.path.join(VERIF, "coq")
TARGET = os.path.join(WORK, "target")
CARGO_ENV = dict(os.environ, CARGO_NET_OFFLINE="true", CARGO_TARGET_DIR=TARGET,
                 RUSTFLAGS=os.environ.get("RUSTFLAGS", "") + " --cfg fastxdr_verif")
COQ_ARGS = ["-Q", os.path.join(COQ, "theories/Model"), "XdrModel",
            "-Q", os.path.join(COQ, "theories/Proofs"), "XdrProofs",
            "-Q", os.path.join(COQ, "theories/Props"), "XdrProps"]
DERIVE_DEFAULT = "#[derive(Debug, PartialEq)]"
DERIVE_CLONE = "#[derive(Debug, PartialEq, Clone)]"


class TieBroken(Exception):
    """a translator, a build or a correspondence check no longer goes through"""


def log(*a):
    print(*a, file=sys.stderr, flush=True)


def sh(cmd, **kw):
    kw.setdefault("stdout", subprocess.PIPE)
    kw.setdefault("stderr", subprocess.STDOUT)
    kw.setdefault("text", True)
    return subprocess.run(cmd, **kw)


# ---------------------------------------------------------------------------------------
# sources


def src_files():
    out = []
    for root, _, files in os.walk(os.path.join(REPO, "src")):
        for f in files:
            out.append(os.path.join(root, f))
    out += [os.path.join(REPO, "Cargo.toml"), os.path.join(REPO, "Cargo.lock")]
    return sorted(out)


def src_hash():
    h = hashlib.sha256()
    for f in src_files():
        h.update(f.encode())
        h.update(open(f, "rb").read())
    return h.hexdigest()[:16]


def harvest_specs():
    """specification texts used by /repo's own tests (first raw-string argument of the
    test_convert! / parse! macros) and xdr_spec.x"""
    specs = []
    for f in src_files():
        if not f.endswith(".rs"):
            continue
        s = open(f).read()
        for m in re.finditer(r'(test_convert!\(\s*\w+,|parse!\(|Ast::new\()\s*r#"(.*?)"#', s, re.S):
            specs.append(m.group(2))
    x = os.path.join(REPO, "src/xdr_spec.x")
    if os.path.exists(x):
        specs.append(open(x).read())
    seen, out = set(), []
    for s in specs:
        if s not in seen:
            seen.add(s)
            out.append(s)
    return out


# ---------------------------------------------------------------------------------------
# harness: front


def sync_crate(name):
    src = os.path.join(VERIF, "harness", name)
    dst = os.path.join(WORK, name)
    os.makedirs(dst, exist_ok=True)
    for root, _, files in os.walk(src):
        rel = os.path.relpath(root, src)
        os.makedirs(os.path.join(dst, rel), exist_ok=True)
        for f in files:
            a, b = os.path.join(root, f), os.path.join(dst, rel, f)
            if not os.path.exists(b) or open(a, "rb").read() != open(b, "rb").read():
                shutil.copyfile(a, b)
    lock = os.path.join(dst, "Cargo.lock")
    if not os.path.exists(lock):
        shutil.copyfile(os.path.join(REPO, "Cargo.lock"), lock)
    return dst


def cargo_build(crate_dir, release=False, timeout=1200):
    cmd = ["cargo", "build", "--offline", "-q"] + (["--release"] if release else [])
    r = sh(cmd, cwd=crate_dir, env=CARGO_ENV, timeout=timeout)
    return r


def build_front():
    d = sync_crate("front")
    r = cargo_build(d)
    if r.returncode != 0:
        raise TieBroken("front harness does not build against /repo:\n" + r.stdout[-3000:])
    return os.path.join(TARGET, "debug", "front")


_fn_cache = {}


def enclosing_fn(path, line):
    """file + enclosing fn of a panic location (robust against moved lines)"""
    if not path.startswith("/") and not os.path.exists(path):
        path2 = os.path.join(REPO, path)
    else:
        path2 = path
    base = os.path.basename(path)
    if not os.path.exists(path2):
        return base + ":?"
    if path2 not in _fn_cache:
        _fn_cache[path2] = open(path2).read().split("\n")
    lines = _fn_cache[path2]
    # nearest preceding fn at the lowest indentation that still encloses the line
    best, best_ind = None, None
    for i in range(min(line, len(lines)) - 1, -1, -1):
        m = re.match(r'^(\s*)(?:pub(?:\([a-z]+\))?\s+)?fn\s+(\w+)', lines[i])
        if m:
            ind = len(m.group(1))
            if best is None or ind < best_ind:
                best, best_ind = m.group(2), ind
            if ind <= 4:
                break
    return "%s:%s" % (base, best or "?")


def run_front(specs, tag):
    """run the front harness on the given texts; returns a list of observation dicts"""
    exe = build_front()
    d = os.path.join(WORK, "runs", tag)
    shutil.rmtree(d, ignore_errors=True)
    os.makedirs(d)
    for i, s in enumerate(specs):
        with open(os.path.join(d, "%05d.x" % i), "w") as f:
            f.write(s)
    # exit status 3: the watchdog recorded a time-out for one specification; go on with the rest
    for _ in range(200):
        r = sh([exe, d], timeout=1800)
        if r.returncode != 3:
            break
    if r.returncode != 0:
        raise TieBroken("front harness failed:\n" + r.stdout[-3000:])
    header = open(os.path.join(REPO, "src/header.rs")).read() + "\n"
    out = []
    for i, s in enumerate(specs):
        p = os.path.join(d, "%05d.json" % i)
        j = json.load(open(p))
        if j.get("timeout"):
            # a library call that does not return within the watchdog's limit: reported like a
            # panic whose site is the stage that hung
            hung = {"outcome": "panic", "site": "TIMEOUT:" + j["stage"], "msg": "no result within 20 s", "file": "?", "line": 0}
            j = {"tree": None, "ast": dict(hung), "gen_default": dict(hung), "gen_clone": dict(hung), "shared_same": True, "timed_out": True}
            j["text"] = s
            j["index"] = i
            out.append(j)
            continue
        j["text"] = s
        j["index"] = i
        for key in ("default", "clone"):
            g = j["gen_" + key]
            if g["outcome"] == "ok":
                t = open(os.path.join(d, "%05d.%s.rs" % (i, key))).read()
                g["path"] = os.path.join(d, "%05d.%s.rs" % (i, key))
                g["header_ok"] = t.startswith(header)
                g["body"] = t[len(header):] if g["header_ok"] else t
            elif g["outcome"] == "panic":
                g["site"] = enclosing_fn(g["file"], g["line"])
        if j["ast"]["outcome"] == "panic":
            j["ast"]["site"] = enclosing_fn(j["ast"]["file"], j["ast"]["line"])
        out.append(j)
    return out


def split_items(body, derive):
    """split the text after the header into items; returns (items, closing)"""
    lines = body.split("\n")
    if lines and lines[-1] == "":
        lines.pop()
    closing = ""
    if lines and lines[-1] == "}":
        # the last "}" closes the module -- but it may also be the end of the last impl
        closing = "}\n"
        lines.pop()
    items, cur = [], []
    for ln in lines:
        if ln == derive or ln.startswith("pub const ") or re.match(r'impl(<[^>]*>)? (TryFrom|WireSize)\b', ln):
            if cur:
                items.append("\n".join(cur) + "\n")
            cur = [ln]
        else:
            cur.append(ln)
    if cur:
        items.append("\n".join(cur) + "\n")
    return items, closing


# ---------------------------------------------------------------------------------------
# Coq


TRANSLATOR_ERRORS = []


def regen_generated():
    """translators: regenerate the data files of the model from /repo.  If the source no longer
    has the shape a translator expects, the error is recorded (the check reports the broken
    tie) and the last generated file is kept so that the rest of the check can still run."""
    p = os.path.join(COQ, "theories/Model/Tables.v")
    try:
        t = gen_tables.generate(REPO)
    except Exception as e:  # TranslatorError or a parse problem
        msg = "gen_tables: %s" % e
        if msg not in TRANSLATOR_ERRORS:
            TRANSLATOR_ERRORS.append(msg)
        if not os.path.exists(p):
            raise TieBroken(msg)
        return
    if not os.path.exists(p) or open(p).read() != t:
        with open(p, "w") as f:
            f.write(t)


def coq_make(targets=None, timeout=3000):
    """full .vo build of the development (or of the given .vo targets and their deps)"""
    regen_generated()
    mk = os.path.join(COQ, "Makefile")
    cp = os.path.join(COQ, "_CoqProject")
    if not os.path.exists(mk) or os.path.getmtime(mk) < os.path.getmtime(cp):
        r = sh(["coq_makefile", "-f", "_CoqProject", "-o", "Makefile"], cwd=COQ)
        if r.returncode != 0:
            raise TieBroken("coq_makefile failed: " + r.stdout)
    cmd = ["make", "-k", "-j16"] + (targets or [])
    r = sh(cmd, cwd=COQ, timeout=timeout)
    return r


def coq_up_to_date(vo):
    """after coq_make: is this .vo (hence everything it depends on) built from the current sources?"""
    r = sh(["make", "-q", vo], cwd=COQ, timeout=600)
    return r.returncode == 0 and os.path.exists(os.path.join(COQ, vo))


def coq_eval(name, body, timeout=1200):
    """compile a generated .v file, return coqc's stdout"""
    d = os.path.join(WORK, "cases")
    os.makedirs(d, exist_ok=True)
    p = os.path.join(d, name + ".v")
    with open(p, "w") as f:
        f.write(body)
    def big_stack():
        import resource
        try:
            soft, hard = resource.getrlimit(resource.RLIMIT_STACK)
            resource.setrlimit(resource.RLIMIT_STACK, (hard, hard))
        except Exception:
            pass
    r = sh(["coqc", "-noglob"] + COQ_ARGS + [p], timeout=timeout, cwd=d, preexec_fn=big_stack)
    if r.returncode != 0:
        raise TieBroken("coqc failed on %s:\n%s" % (p, r.stdout[-3000:]))
    return r.stdout


def parse_pairs(out):
    """parse `= [(1, 2); (3, 4)]%N`-style output into a list of int tuples"""
    m = re.search(r'=\s*(\[.*?\])\s*(?:%N)?\s*:\s*list', out, re.S)
    if not m:
        raise TieBroken("cannot parse coqc output: " + out[:500])
    body = m.group(1)
    res = []
    for t in re.finditer(r'\(([^()]*)\)', body):
        res.append(tuple(int(x.strip().replace("%N", "")) for x in t.group(1).split(",")))
    return res


def parse_nums(out):
    m = re.search(r'=\s*\[(.*?)\]\s*(?:%N)?\s*:\s*list', out, re.S)
    if not m:
        raise TieBroken("cannot parse coqc output: " + out[:500])
    return [int(x.strip().replace("%N", "")) for x in m.group(1).split(";") if x.strip()]


def shard(xs, n):
    k = max(1, (len(xs) + n - 1) // n)
    return [xs[i:i + k] for i in range(0, len(xs), k)]


def par(fn, items, workers=16):
    with ThreadPoolExecutor(max_workers=workers) as ex:
        return list(ex.map(fn, items))


# ---------------------------------------------------------------------------------------
# K2: emitted text


def k2_case(idx, obs, key):
    derive = DERIVE_DEFAULT if key == "default" else DERIVE_CLONE
    g = obs["gen_" + key]
    if g["outcome"] == "ok":
        items, closing = split_items(g["body"], derive)
        real = "(RGOk %s %s)" % (ct.clist([ct.cstr(i) for i in items]), ct.cstr(closing))
    elif g["outcome"] == "err":
        real = "RGErr"
    else:
        real = "(RGPanic %s)" % ct.cstr(g["site"])
    return "(%d%%N, %s, %s, %s)" % (idx, ct.ast(obs["ast"]), ct.cstr(derive), real)


def k2(observations, tag, keys=("default", "clone")):
    """compare Render(Gen(real AST)) with the real generate() text.  Returns (n_cases,
    disagreements) where a disagreement is (obs index, key, code)."""
    cases = []
    for o in observations:
        if o["ast"]["outcome"] != "ok":
            continue
        for key in keys:
            cases.append((o["index"], key))
    lookup = {o["index"]: o for o in observations}
    # layout variants of one specification have the same Ast and the same generated text: the
    # model is evaluated once per distinct (Ast, derive, real text) and the verdict shared
    rendered, rep, members = {}, {}, {}
    for n, (i, key) in enumerate(cases):
        t = k2_case(0, lookup[i], key)
        if t not in rep:
            rep[t] = n
            rendered[n] = k2_case(n, lookup[i], key)
        members.setdefault(rep[t], []).append(n)
    uniq = sorted(rendered)
    # bounded files (a coqc job needs ~1.7 GB per MB of case text; 16 run at a time)
    shards, cur, size = [], [], 0
    for n in uniq:
        if cur and size + len(rendered[n]) > 1200000:
            shards.append(cur)
            cur, size = [], 0
        cur.append(n)
        size += len(rendered[n])
    if cur:
        shards.append(cur)
    if len(shards) < 16 and len(uniq) >= 16:
        shards = [[n for _, n in sh] for sh in shard(list(enumerate(uniq)), 16)]

    def run(sh_i):
        si, items = sh_i
        body = ["From XdrModel Require Import Check.", "Open Scope string_scope.",
                "Definition cases : list (N * ast * string * real_gen) := ["]
        body.append(";\n".join(rendered[n] for n in items))
        body.append("].")
        body.append("Eval vm_compute in (k2_run cases).")
        out = coq_eval("k2_%s_%d" % (tag, si), "\n".join(body))
        return parse_pairs(out)

    res = par(run, list(enumerate(shards)))
    dis = []
    for r in res:
        for n, code in r:
            for m in members[n]:
                i, key = cases[m]
                dis.append((i, key, code))
    bad_header = [(o["index"], key) for o in observations for key in keys
                  if o["gen_" + key]["outcome"] == "ok" and not o["gen_" + key]["header_ok"]]
    return len(cases), dis, bad_header


def k2_show(obs, key, tag="show"):
    derive = DERIVE_DEFAULT if key == "default" else DERIVE_CLONE
    body = ["From XdrModel Require Import Check.", "Open Scope string_scope.",
            "Eval vm_compute in (k2_show %s %s)." % (ct.ast(obs["ast"]), ct.cstr(derive))]
    out = coq_eval("k2_show_" + tag, "\n".join(body))
    m = re.search(r'=\s*"(.*)"\s*:\s*string', out, re.S)
    return m.group(1).replace('""', '"') if m else out


# ---------------------------------------------------------------------------------------
# harness: runner (K3)

RT_SPEC = ("struct rt_elem { unsigned int a; };\nstruct rt_velem { string s<>; };\n"
           "struct rt_oelem { opaque d<>; };\n")

_tables = None


def tables():
    """keyword tables regenerated from the source (the names the real emitters escape)"""
    global _tables
    if _tables is None:
        try:
            t = gen_tables.generate(REPO)
        except Exception:
            t = open(os.path.join(COQ, "theories/Model/Tables.v")).read()
        kw = re.search(r'Definition safe_keywords : list string := \[(.*?)\]\.', t).group(1)
        _tables = {"safe_keywords": re.findall(r'"([^"]*)"', kw)}
    return _tables


def safe_name(s):
    if s in tables()["safe_keywords"]:
        return s + "_v"
    if s in ("TRUE", "FALSE"):
        return s.lower()
    return s


def variant_name(s):
    return ("v_" + s) if s[:1].isdigit() else s


def bt_eq(a, b):
    return a == b


def canon_impls(i, ast):
    """Rust source of the Canon visitors for the types of module s<i>, generated from the
    dumped real AST: it names every field and variant, so it only compiles if the public
    shape is the documented one."""
    out = []
    gens = set(ast["generics"])
    names = []
    for key, t in ast["types"]:
        if "Struct" in t:
            s = t["Struct"]
            name = s["name"]
            ty = "s%d::xdr::%s%s" % (i, name, "<Bytes>" if name in gens else "")
            body = ['o.push_str("S:%s{");' % name]
            for k, f in enumerate(s["fields"]):
                if k:
                    body.append("o.push(',');")
                body.append("self.%s.canon(o, c);" % safe_name(f["name"]))
            body.append("o.push('}');")
        elif "Union" in t:
            u = t["Union"]
            name = u["name"]
            ty = "s%d::xdr::%s%s" % (i, name, "<Bytes>" if name in gens else "")
            arms = []
            seen = set()
            for c in u["cases"]:
                for l in c["values"]:
                    v = variant_name(l)
                    if v in seen:
                        continue
                    seen.add(v)
                    arms.append('Self::%s(x) => { o.push_str("E:%s::%s("); x.canon(o, c); o.push(\')\'); }'
                                % (v, name, v))
            for l in u["void_cases"]:
                v = variant_name(l)
                if v in seen:
                    continue
                seen.add(v)
                arms.append('Self::%s => o.push_str("E:%s::%s"),' % (v, name, v))
            if u["default"] is not None and "default" not in seen:
                arms.append('Self::default(x) => { o.push_str("E:%s::default("); x.canon(o, c); o.push(\')\'); }'
                            % name)
            body = ["match self {"] + arms + ["}"]
        elif "Enum" in t:
            e = t["Enum"]
            name = e["name"]
            ty = "s%d::xdr::%s" % (i, name)
            seen = set()
            arms = []
            for v in e["variants"]:
                if v["name"] in seen:
                    continue
                seen.add(v["name"])
                arms.append('Self::%s => o.push_str("E:%s::%s"),' % (v["name"], name, v["name"]))
            body = ["match self {"] + arms + ["}"]
        else:
            td = t["Typedef"]
            alias = td["alias"]
            base = alias.get("None") or (alias.get("Fixed") or alias.get("Var"))[0]
            if base == td["target"]:
                continue
            name = base["Ident"] if isinstance(base, dict) else None
            if name is None:
                continue
            ty = "s%d::xdr::%s%s" % (i, name, "<Bytes>" if name in gens else "")
            body = ['o.push_str("N:%s(");' % name, "self.0.canon(o, c);", "o.push(')');"]
        if name != key:
            continue  # an entry overwritten by a later duplicate: outside the subset
        names.append((name, ty))
        out.append("impl Canon for %s {\nfn canon(&self, o: &mut String, c: &Ctx) {\n%s\n}\n}"
                   % (ty, "\n".join(body)))
    return "\n".join(out), names


CHUNK = 36


class RunnerSet:
    """several runner binaries, each holding a chunk of the generated modules"""

    def __init__(self):
        self.exes = []        # (exe path, set of spec indices)
        self.default = None

    def exe_for(self, spec):
        for exe, idx in self.exes:
            if spec in idx:
                return exe
        return self.default


def gen_rs_for(chunk, rt):
    parts = ["mod srt { include!(%s); }" % json.dumps(rt["gen_default"]["path"])]
    dispatch, sizes, types = [], [], {}
    for i, path, ast in chunk:
        parts.append("mod s%d { include!(%s); }" % (i, json.dumps(path)))
        src, names = canon_impls(i, ast)
        parts.append(src)
        types[i] = [n for n, _ in names]
        for n, ty in names:
            dispatch.append('(%d, "%s") => case!(s%d::xdr::Error, s%d::xdr::WireSize, %s, alloc, off),'
                            % (i, n, i, i, ty))
            sizes.append('println!("size %d %s {}", std::mem::size_of::<%s>());' % (i, n, ty))
    rt_src, _ = canon_impls(0, rt["ast"])
    parts.append(rt_src.replace("s0::xdr::", "srt::xdr::"))
    parts.append("fn dispatch(spec: usize, ty: &str, alloc: &Bytes, off: usize) -> String {\n"
                 "if ty.starts_with('@') { return reader_dispatch(ty, alloc, off); }\n"
                 "match (spec, ty) {\n%s\n_ => \"NOCASE\".to_string(),\n}\n}" % "\n".join(dispatch))
    parts.append("fn print_sizes() {\n%s\n}" % "\n".join(sizes))
    return "\n".join(parts) + "\n", types


def build_runner(mods, tag):
    """mods: list of (index, path of generated text, ast json).  The modules are split into
    chunks, each compiled into its own runner binary (one cargo workspace, built in parallel).
    Module 'srt' (generated from RT_SPEC) is in every binary.
    Returns (RunnerSet, types {index: [names]}, failed [(index, rustc output)])."""
    rt = run_front([RT_SPEC], tag + "_rt")[0]
    if rt["gen_default"]["outcome"] != "ok":
        raise TieBroken("the runtime specification is no longer accepted by generate()")
    main_rs = open(os.path.join(VERIF, "harness", "runner", "src", "main.rs")).read()
    cargo_toml = open(os.path.join(VERIF, "harness", "runner", "Cargo.toml")).read()
    failed = []
    mods = list(mods)
    ws = os.path.join(WORK, "runnerws")
    os.makedirs(ws, exist_ok=True)
    for attempt in range(6):
        chunks = [mods[k:k + CHUNK] for k in range(0, len(mods), CHUNK)] or [[]]
        rs = RunnerSet()
        types = {}
        todo = []
        for ci, chunk in enumerate(chunks):
            gen_rs, ty = gen_rs_for(chunk, rt)
            types.update(ty)
            h = hashlib.sha256((src_hash() + gen_rs + main_rs).encode())
            for _, path, _a in chunk:
                h.update(open(path, "rb").read())
            h.update(open(rt["gen_default"]["path"], "rb").read())
            cached = os.path.join(WORK, "cache", "runner_" + h.hexdigest()[:20])
            idx = set(i for i, _, _ in chunk)
            if os.path.exists(cached):
                rs.exes.append((cached, idx))
            else:
                todo.append((ci, gen_rs, cached, idx))
        if todo:
            members = []
            for ci, gen_rs, cached, idx in todo:
                d = os.path.join(ws, "r%d" % ci)
                os.makedirs(os.path.join(d, "src"), exist_ok=True)
                ct_ = cargo_toml.replace('name = "runner"', 'name = "runner%d"' % ci).replace("[workspace]\n", "")
                ct_ = ct_.split("[profile.dev]")[0]
                for fn, txt in (("Cargo.toml", ct_), ("src/main.rs", main_rs), ("src/gen.rs", gen_rs)):
                    fp = os.path.join(d, fn)
                    if not os.path.exists(fp) or open(fp).read() != txt:
                        open(fp, "w").write(txt)
                members.append("r%d" % ci)
            with open(os.path.join(ws, "Cargo.toml"), "w") as f:
                f.write("[workspace]\nmembers = [%s]\nresolver = \"2\"\n\n[profile.dev]\ndebug = 0\noverflow-checks = true\n"
                        % ", ".join('"%s"' % m for m in members))
            lock = os.path.join(ws, "Cargo.lock")
            if not os.path.exists(lock):
                shutil.copyfile(os.path.join(REPO, "Cargo.lock"), lock)
            for ci, _g, _c, _i in todo:
                try:
                    os.remove(os.path.join(TARGET, "debug", "runner%d" % ci))
                except OSError:
                    pass
            r = sh(["cargo", "build", "--offline", "--keep-going"], cwd=ws, env=CARGO_ENV, timeout=3000)
            ok_all = True
            bad_idx = set()
            for ci, gen_rs, cached, idx in todo:
                exe = os.path.join(TARGET, "debug", "runner%d" % ci)
                built = r.returncode == 0 or ("could not compile `runner%d`" % ci) not in r.stdout
                if built and os.path.exists(exe):
                    os.makedirs(os.path.join(WORK, "cache"), exist_ok=True)
                    shutil.copyfile(exe, cached)
                    os.chmod(cached, 0o755)
                    rs.exes.append((cached, idx))
                else:
                    ok_all = False
            if not ok_all:
                for m in re.finditer(r'/(\d{5})\.(?:default|clone)\.rs', r.stdout):
                    bad_idx.add(int(m.group(1)))
                for m in re.finditer(r'\bs(\d+)::xdr::', r.stdout):
                    bad_idx.add(int(m.group(1)))
                present = set(i for i, _, _ in mods)
                bad_idx &= present
                if not bad_idx:
                    raise TieBroken("runner harness does not build:\n" + r.stdout[-4000:])
                for b in sorted(bad_idx):
                    # keep the part of the compiler output that mentions this module
                    msgs = [blk for blk in r.stdout.split("\n\n") if ("%05d." % b) in blk or ("s%d::" % b) in blk]
                    failed.append((b, "\n\n".join(msgs)[-3000:] or r.stdout[-3000:]))
                mods = [m for m in mods if m[0] not in bad_idx]
                continue
        rs.default = rs.exes[0][0] if rs.exes else None
        return rs, types, failed
    raise TieBroken("runner harness does not build after dropping modules")


def run_runner(exe, cases, mem_limit=4 << 30, stack_limit=None):
    """cases: list of 'spec type off hex' strings.  Returns one output line per case; a case
    that kills the process is reported as 'ABORT <signal>' and the runner is restarted.
    exe may be a RunnerSet: the cases are routed to the binary holding their module."""
    if isinstance(exe, RunnerSet):
        groups = {}
        for n, c in enumerate(cases):
            e = exe.exe_for(int(c.split(" ", 1)[0]))
            groups.setdefault(e, []).append(n)
        out = [None] * len(cases)

        def work(item):
            e, ns = item
            return ns, run_runner(e, [cases[n] for n in ns], mem_limit, stack_limit)
        for ns, lines in par(work, list(groups.items()), workers=8):
            for n, l in zip(ns, lines):
                out[n] = l
        return out
    import resource
    import signal

    def limits():
        resource.setrlimit(resource.RLIMIT_AS, (mem_limit, mem_limit))
        if stack_limit:
            resource.setrlimit(resource.RLIMIT_STACK, (stack_limit, stack_limit))

    out = []
    pos = 0
    while pos < len(cases):
        p = subprocess.run([exe], input="\n".join(cases[pos:]) + "\n", stdout=subprocess.PIPE,
                           stderr=subprocess.PIPE, text=True, preexec_fn=limits, timeout=1800)
        lines = p.stdout.split("\n")
        if lines and lines[-1] == "":
            lines.pop()
        out.extend(lines[:len(cases) - pos])
        pos += len(lines)
        if pos < len(cases):
            sig = -p.returncode if p.returncode < 0 else p.returncode
            try:
                name = signal.Signals(sig).name
            except Exception:
                name = str(sig)
            why = "alloc" if "memory allocation" in p.stderr else ("stack" if "overflowed its stack" in p.stderr else "")
            out.append("ABORT %s %s" % (name, why))
            pos += 1
    return out[:len(cases)]


def runner_sizes(rs):
    sizes = {}
    for exe, _ in (rs.exes if isinstance(rs, RunnerSet) else [(rs, None)]):
        r = sh([exe, "sizes"])
        for ln in r.stdout.split("\n"):
            p = ln.split()
            if len(p) == 4 and p[0] == "size":
                sizes[(int(p[1]), p[2])] = int(p[3])
    return sizes


ALLOC_RE = re.compile(r' alloc=(\d+)(?: peak=(\d+))?')


def strip_alloc(line):
    return ALLOC_RE.sub("", line)


def allocs(line):
    return [(int(a), int(b) if b else 0) for a, b in ALLOC_RE.findall(line)]


def dexp_of_reader(t):
    p = t.split(":")

    def mx(s):
        return "None" if s == "-" else "(Some %s%%N)" % s
    k = p[0]
    prim = {"@u32": "PU32", "@u64": "PU64", "@i32": "PI32", "@i64": "PI64", "@f32": "PF32",
            "@f64": "PF64", "@bool": "PBool"}
    if k in prim:
        return "(KReader (EPrim %s))" % prim[k]
    if k == "@bytes":
        return "(KReader (EBytes %s%%N))" % p[1]
    if k == "@varbytes":
        return "(KReader (EVarBytes %s))" % mx(p[1])
    if k == "@string":
        return "(KReader (EString %s))" % mx(p[1])
    if k == "@vararray":
        return "(KReader (EVarArray %s %s %s))" % (ct.cstr(p[1]), "true" if p[1] == "rt_oelem" else "false", mx(p[2]))
    if k == "@wsz":
        return "(KWsz %s %s%%N)" % (ct.cstr(p[1]), p[2])
    raise ValueError(t)


def model_view(real):
    """what the model is expected to print for a real observation: allocation counters are not
    part of the line; a process that was killed because the allocator or the stack gave out
    cannot be exhibited by the model, which runs out of fuel on such an input instead"""
    if real.startswith("ABORT"):
        return "FUEL"
    return strip_alloc(real)


def k3(groups, tag):
    """groups: list of (ast json, [(type-or-reader, off, hex, real line)]).  Compares the
    model's line with the real one (alloc= fields removed).  Returns (n, disagreements)
    where a disagreement is (group index, case index)."""
    flat = []
    for gi, (ast, cases) in enumerate(groups):
        for ci in range(len(cases)):
            flat.append((gi, ci))
    # shard by groups, keeping roughly equal numbers of cases
    shards, cur, cnt = [], [], 0
    per = max(1, min(len(flat) // 16, 3000))    # bounded coqc jobs (memory, time-out) whatever the corpus size
    for gi, (ast, cases) in enumerate(groups):
        for start in range(0, len(cases), per):
            chunk = list(range(start, min(len(cases), start + per)))
            cur.append((gi, chunk))
            cnt += len(chunk)
            if cnt >= per:
                shards.append(cur)
                cur, cnt = [], 0
    if cur:
        shards.append(cur)

    def run(sh_i):
        si, sh = sh_i
        body = ["From XdrModel Require Import Canon.", "Open Scope string_scope."]
        evals = []
        local = []
        for k, (gi, chunk) in enumerate(sh):
            ast, cases = groups[gi]
            rows = []
            for ci in chunk:
                kind, off, hx, real = cases[ci]
                kk = dexp_of_reader(kind) if kind.startswith("@") else "(KType %s)" % ct.cstr(kind)
                rows.append("(%d%%N, %s, %d%%N, %s, %s)" % (len(local), kk, off, ct.cstr(hx),
                                                          ct.cstr(model_view(real))))
                local.append((gi, ci))
            body.append("Definition a%d : ast := %s." % (k, ct.ast(ast)))
            body.append("Definition c%d : list (N * k3_kind * N * string * string) := [%s]." % (k, ";\n".join(rows)))
            evals.append("k3_run2 a%d c%d" % (k, k))
        body.append("Eval vm_compute in ((%s)%%list)." % " ++ ".join(evals))
        out = coq_eval("k3_%s_%d" % (tag, si), "\n".join(body))
        return [local[n] for n in parse_nums(out)]

    res = par(run, list(enumerate(shards)))
    dis = [x for r in res for x in r]
    return len(flat), dis


def k3_show(ast, kind, off, hx, tag="show"):
    kk = dexp_of_reader(kind) if kind.startswith("@") else "(KType %s)" % ct.cstr(kind)
    body = ["From XdrModel Require Import Canon.", "Open Scope string_scope.",
            "Eval vm_compute in (k3_show2 %s %s %d%%N %s)." % (ct.ast(ast), kk, off, ct.cstr(hx))]
    out = coq_eval("k3_show_" + tag, "\n".join(body))
    m = re.search(r'=\s*"(.*)"\s*:\s*string', out, re.S)
    return re.sub(r'\s*\n\s*', ' ', m.group(1)) if m else out


# ---------------------------------------------------------------------------------------
# K1: front end


def regen_grammar():
    import gen_grammar
    p = os.path.join(COQ, "theories/Model/Grammar.v")
    try:
        t = gen_grammar.generate(REPO)
    except Exception as e:
        msg = "gen_grammar: %s" % e
        if msg not in TRANSLATOR_ERRORS:
            TRANSLATOR_ERRORS.append(msg)
        if not os.path.exists(p):
            raise TieBroken(msg)
        return
    if not os.path.exists(p) or open(p).read() != t:
        with open(p, "w") as f:
            f.write(t)


_old_regen = regen_generated


def regen_generated():  # noqa: F811
    _old_regen()
    regen_grammar()


def coq_text(s):
    """a Coq string term for arbitrary text (control characters and non-ASCII bytes spelled out)"""
    b = s.encode("utf-8")
    if all((32 <= c < 127) or c in (9, 10) for c in b):
        return ct.cstr(s)
    # split into printable runs and single bytes
    parts = []
    run = bytearray()
    for c in b:
        if (32 <= c < 127) or c in (9, 10):
            run.append(c)
        else:
            if run:
                parts.append(ct.cstr(run.decode("ascii")))
                run = bytearray()
            parts.append("(String (Ascii.ascii_of_nat %d) EmptyString)" % c)
    if run:
        parts.append(ct.cstr(run.decode("ascii")))
    return "(" + " ++ ".join(parts) + ")%string"


def k1_case(n, o):
    tr = "None" if o["tree"] is None else "(Some %s)" % tree_term(o["tree"])
    a = o["ast"]
    if a["outcome"] == "ok":
        ra = "(RAOk %s)" % ct.ast(a)
    elif a["outcome"] == "err":
        ra = "RAErr"
    else:
        ra = "(RAPanic %s)" % ct.cstr(a["site"])
    return "(%d%%N, %s, %s, %s)" % (n, coq_text(o["text"]), tr, ra)


def tree_term(j):
    return "(Node %s %s %s)" % (ct.cstr(j[0]), coq_text(j[1]), ct.clist([tree_term(c) for c in j[2]]))


def k1(observations, tag):
    """token tree, outcome class and AST of the model's front end vs the real one"""
    obs = list(observations)
    shards = shard(list(enumerate(obs)), 16)

    def run(sh_i):
        si, items = sh_i
        body = ["From XdrModel Require Import Check Walk Grammar.", "Open Scope string_scope.",
                "Definition cases : list (N * string * option tree * real_ast) := ["]
        body.append(";\n".join(k1_case(n, o) for n, o in items))
        body.append("].")
        body.append("Eval vm_compute in (k1_run cases).")
        return parse_pairs(coq_eval("k1_%s_%d" % (tag, si), "\n".join(body)))

    res = par(run, list(enumerate(shards)))
    return len(obs), [(n, code) for r in res for n, code in r]


def k5(cases, tag):
    """cases: (observation, sdecl list term).  Source.tree_of / item_of (the reference of the
    C12 theorems) against the model parse of the text and the real Ast"""
    cases = list(cases)
    shards = shard(list(enumerate(cases)), 16)

    def one(n, o, ds):
        a = o["ast"]
        if a["outcome"] == "ok":
            ra = "(RAOk %s)" % ct.ast(a)
        elif a["outcome"] == "err":
            ra = "RAErr"
        else:
            ra = "(RAPanic %s)" % ct.cstr(a["site"])
        return "(%d%%N, %s, %s, %s)" % (n, coq_text(o["text"]), ds, ra)

    def run(sh_i):
        si, items = sh_i
        body = ["From XdrModel Require Import Check Walk Grammar Source.", "Open Scope string_scope.",
                "Definition cases : list (N * string * list sdecl * real_ast) := ["]
        body.append(";\n".join(one(n, o, ds) for n, (o, ds) in items))
        body.append("].")
        body.append("Eval vm_compute in (k5_run cases).")
        return parse_pairs(coq_eval("k5_%s_%d" % (tag, si), "\n".join(body)))

    res = par(run, list(enumerate(shards)))
    return len(cases), [(n, code) for r in res for n, code in r]


def k5_reads(cases, tag):
    """on the K5 cases: does the text meet the premise of the text theorems (TextTie.reads_as:
    it lexes as the token stream of ds with white space and comments between the tokens)?
    Returns (number of cases, indices where it does not)"""
    cases = list(cases)
    shards = shard(list(enumerate(cases)), 16)

    def run(sh_i):
        si, items = sh_i
        body = ["From XdrModel Require Import Check Walk Grammar Source.", "From XdrProofs Require Import TextTie.",
                "Open Scope string_scope.", "Open Scope list_scope.",
                "Definition cases : list (N * string * list sdecl) := ["]
        body.append(";\n".join("(%d%%N, %s, %s)" % (n, coq_text(o["text"]), ds) for n, (o, ds) in items))
        body.append("].")
        body.append("Eval vm_compute in (flat_map (fun c => match c with (i, text, ds) => "
                    "if reads_as ds text then [] else [i] end) cases).")
        return parse_nums(coq_eval("k5r_%s_%d" % (tag, si), "\n".join(body)))

    res = par(run, list(enumerate(shards)))
    return len(cases), [n for r in res for n in r]


def layout_pairs(pairs, tag):
    """pairs: (text1, ds1 term, text2, ds2 term).  The premise of C11_layout_independent_full on
    two layouts of one specification: both read as their declaration lists, which agree up to the
    spelling of basic types.  Returns (number of pairs, indices where the premise does not hold)"""
    pairs = list(pairs)
    shards = shard(list(enumerate(pairs)), 16)

    def run(sh_i):
        si, items = sh_i
        body = ["From XdrModel Require Import Check Walk Grammar Source.", "From XdrProofs Require Import TextTie.",
                "Open Scope string_scope.", "Open Scope list_scope.",
                "Definition cases : list (N * (string * list sdecl) * (string * list sdecl)) := ["]
        body.append(";\n".join("(%d%%N, (%s, %s), (%s, %s))" % (n, coq_text(t1), d1, coq_text(t2), d2) for n, (t1, d1, t2, d2) in items))
        body.append("].")
        body.append("Eval vm_compute in (flat_map (fun c => match c with (i, (t1, d1), (t2, d2)) => "
                    "if (reads_as d1 t1 && reads_as d2 t2 && same_declarations d1 d2 && forallb decl_okb d1 && forallb decl_okb d2)%bool "
                    "then [] else [i] end) cases).")
        return parse_nums(coq_eval("lp_%s_%d" % (tag, si), "\n".join(body)))

    res = par(run, list(enumerate(shards)))
    return len(pairs), [n for r in res for n in r]


def k1_show(text, tag="show"):
    body = ["From XdrModel Require Import Check Walk Grammar.", "Open Scope string_scope.",
            "Eval vm_compute in (parse xdr_grammar (parse_fuel %s) %s)." % (coq_text(text), coq_text(text)),
            "Eval vm_compute in (model_ast %s)." % coq_text(text)]
    return coq_eval("k1_show_" + tag, "\n".join(body))
