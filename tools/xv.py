"""Shared machinery of the fastxdr verification checks: building the harnesses against
/repo's working tree, running the translators, building the Coq development, running the
correspondence checks and writing evidence."""
import hashlib
import json
import os
import re
import shutil
import subprocess
import sys
import time
from concurrent.futures import ThreadPoolExecutor

sys.path.insert(0, os.path.dirname(os.path.abspath(__file__)))
import coqterm as ct  # noqa: E402
import gen_tables  # noqa: E402

VERIF = os.path.dirname(os.path.dirname(os.path.abspath(__file__)))
REPO = os.environ.get("VERIF_REPO", "/repo")
WORK = os.path.join(VERIF, "work")
COQ = os.path.join(VERIF, "coq")
TARGET = os.path.join(WORK, "target")
CARGO_ENV = dict(os.environ, CARGO_NET_OFFLINE="true", CARGO_TARGET_DIR=TARGET,
                 RUSTFLAGS=os.environ.get("RUSTFLAGS", "") + " --cfg fastxdr_verif")
COQ_ARGS = ["-Q", os.path.join(COQ, "theories/Model"), "XdrModel",
            "-Q", os.path.join(COQ, "theories/Proofs"), "XdrProofs",
            "-Q", os.path.join(COQ, "theories/Props"), "XdrProps"]
DERIVE_DEFAULT = "#[derive(Debug, PartialEq)]"
DERIVE_CLONE = "#[derive(Debug, PartialEq, Clone)]"


class TieBroken(Exception):
    """a translator, a build or a correspondence check no longer goes through"""


def log(*a):
    print(*a, file=sys.stderr, flush=True)


def sh(cmd, **kw):
    kw.setdefault("stdout", subprocess.PIPE)
    kw.setdefault("stderr", subprocess.STDOUT)
    kw.setdefault("text", True)
    return subprocess.run(cmd, **kw)


# ---------------------------------------------------------------------------------------
# sources


def src_files():
    out = []
    for root, _, files in os.walk(os.path.join(REPO, "src")):
        for f in files:
            out.append(os.path.join(root, f))
    out += [os.path.join(REPO, "Cargo.toml"), os.path.join(REPO, "Cargo.lock")]
    return sorted(out)


def src_hash():
    h = hashlib.sha256()
    for f in src_files():
        h.update(f.encode())
        h.update(open(f, "rb").read())
    return h.hexdigest()[:16]


def harvest_specs():
    """specification texts used by /repo's own tests (first raw-string argument of the
    test_convert! / parse! macros) and xdr_spec.x"""
    specs = []
    for f in src_files():
        if not f.endswith(".rs"):
            continue
        s = open(f).read()
        for m in re.finditer(r'(test_convert!\(\s*\w+,|parse!\(|Ast::new\()\s*r#"(.*?)"#', s, re.S):
            specs.append(m.group(2))
    x = os.path.join(REPO, "src/xdr_spec.x")
    if os.path.exists(x):
        specs.append(open(x).read())
    seen, out = set(), []
    for s in specs:
        if s not in seen:
            seen.add(s)
            out.append(s)
    return out


# ---------------------------------------------------------------------------------------
# harness: front


def sync_crate(name):
    src = os.path.join(VERIF, "harness", name)
    dst = os.path.join(WORK, name)
    os.makedirs(dst, exist_ok=True)
    for root, _, files in os.walk(src):
        rel = os.path.relpath(root, src)
        os.makedirs(os.path.join(dst, rel), exist_ok=True)
        for f in files:
            a, b = os.path.join(root, f), os.path.join(dst, rel, f)
            if not os.path.exists(b) or open(a, "rb").read() != open(b, "rb").read():
                shutil.copyfile(a, b)
    lock = os.path.join(dst, "Cargo.lock")
    if not os.path.exists(lock):
        shutil.copyfile(os.path.join(REPO, "Cargo.lock"), lock)
    return dst


def cargo_build(crate_dir, release=False, timeout=1200):
    cmd = ["cargo", "build", "--offline", "-q"] + (["--release"] if release else [])
    r = sh(cmd, cwd=crate_dir, env=CARGO_ENV, timeout=timeout)
    return r


def build_front():
    d = sync_crate("front")
    r = cargo_build(d)
    if r.returncode != 0:
        raise TieBroken("front harness does not build against /repo:\n" + r.stdout[-3000:])
    return os.path.join(TARGET, "debug", "front")


_fn_cache = {}


def enclosing_fn(path, line):
    """file + enclosing fn of a panic location (robust against moved lines)"""
    if not path.startswith("/") and not os.path.exists(path):
        path2 = os.path.join(REPO, path)
    else:
        path2 = path
    base = os.path.basename(path)
    if not os.path.exists(path2):
        return base + ":?"
    if path2 not in _fn_cache:
        _fn_cache[path2] = open(path2).read().split("\n")
    lines = _fn_cache[path2]
    # nearest preceding fn at the lowest indentation that still encloses the line
    best, best_ind = None, None
    for i in range(min(line, len(lines)) - 1, -1, -1):
        m = re.match(r'^(\s*)(?:pub(?:\([a-z]+\))?\s+)?fn\s+(\w+)', lines[i])
        if m:
            ind = len(m.group(1))
            if best is None or ind < best_ind:
                best, best_ind = m.group(2), ind
            if ind <= 4:
                break
    return "%s:%s" % (base, best or "?")


def run_front(specs, tag):
    """run the front harness on the given texts; returns a list of observation dicts"""
    exe = build_front()
    d = os.path.join(WORK, "runs", tag)
    shutil.rmtree(d, ignore_errors=True)
    os.makedirs(d)
    for i, s in enumerate(specs):
        with open(os.path.join(d, "%05d.x" % i), "w") as f:
            f.write(s)
    r = sh([exe, d], timeout=1200)
    if r.returncode != 0:
        raise TieBroken("front harness failed:\n" + r.stdout[-3000:])
    header = open(os.path.join(REPO, "src/header.rs")).read() + "\n"
    out = []
    for i, s in enumerate(specs):
        p = os.path.join(d, "%05d.json" % i)
        j = json.load(open(p))
        j["text"] = s
        j["index"] = i
        for key in ("default", "clone"):
            g = j["gen_" + key]
            if g["outcome"] == "ok":
                t = open(os.path.join(d, "%05d.%s.rs" % (i, key))).read()
                g["path"] = os.path.join(d, "%05d.%s.rs" % (i, key))
                g["header_ok"] = t.startswith(header)
                g["body"] = t[len(header):] if g["header_ok"] else t
            elif g["outcome"] == "panic":
                g["site"] = enclosing_fn(g["file"], g["line"])
        if j["ast"]["outcome"] == "panic":
            j["ast"]["site"] = enclosing_fn(j["ast"]["file"], j["ast"]["line"])
        out.append(j)
    return out


def split_items(body, derive):
    """split the text after the header into items; returns (items, closing)"""
    lines = body.split("\n")
    if lines and lines[-1] == "":
        lines.pop()
    closing = ""
    if lines and lines[-1] == "}":
        # the last "}" closes the module -- but it may also be the end of the last impl
        closing = "}\n"
        lines.pop()
    items, cur = [], []
    for ln in lines:
        if ln == derive or ln.startswith("pub const ") or ln.startswith("impl "):
            if cur:
                items.append("\n".join(cur) + "\n")
            cur = [ln]
        else:
            cur.append(ln)
    if cur:
        items.append("\n".join(cur) + "\n")
    return items, closing


# ---------------------------------------------------------------------------------------
# Coq


def regen_generated():
    """translators: regenerate the data files of the model from /repo"""
    t = gen_tables.generate(REPO)
    p = os.path.join(COQ, "theories/Model/Tables.v")
    if not os.path.exists(p) or open(p).read() != t:
        with open(p, "w") as f:
            f.write(t)


def coq_make(targets=None, timeout=3000):
    """full .vo build of the development (or of the given .vo targets and their deps)"""
    regen_generated()
    mk = os.path.join(COQ, "Makefile")
    cp = os.path.join(COQ, "_CoqProject")
    if not os.path.exists(mk) or os.path.getmtime(mk) < os.path.getmtime(cp):
        r = sh(["coq_makefile", "-f", "_CoqProject", "-o", "Makefile"], cwd=COQ)
        if r.returncode != 0:
            raise TieBroken("coq_makefile failed: " + r.stdout)
    cmd = ["make", "-j16"] + (targets or [])
    r = sh(cmd, cwd=COQ, timeout=timeout)
    return r


def coq_eval(name, body, timeout=1200):
    """compile a generated .v file, return coqc's stdout"""
    d = os.path.join(WORK, "cases")
    os.makedirs(d, exist_ok=True)
    p = os.path.join(d, name + ".v")
    with open(p, "w") as f:
        f.write(body)
    r = sh(["coqc", "-noglob"] + COQ_ARGS + [p], timeout=timeout, cwd=d)
    if r.returncode != 0:
        raise TieBroken("coqc failed on %s:\n%s" % (p, r.stdout[-3000:]))
    return r.stdout


def parse_pairs(out):
    """parse `= [(1, 2); (3, 4)]%N`-style output into a list of int tuples"""
    m = re.search(r'=\s*(\[.*?\])\s*(?:%N)?\s*:\s*list', out, re.S)
    if not m:
        raise TieBroken("cannot parse coqc output: " + out[:500])
    body = m.group(1)
    res = []
    for t in re.finditer(r'\(([^()]*)\)', body):
        res.append(tuple(int(x.strip().replace("%N", "")) for x in t.group(1).split(",")))
    return res


def parse_nums(out):
    m = re.search(r'=\s*\[(.*?)\]\s*(?:%N)?\s*:\s*list', out, re.S)
    if not m:
        raise TieBroken("cannot parse coqc output: " + out[:500])
    return [int(x.strip().replace("%N", "")) for x in m.group(1).split(";") if x.strip()]


def shard(xs, n):
    k = max(1, (len(xs) + n - 1) // n)
    return [xs[i:i + k] for i in range(0, len(xs), k)]


def par(fn, items, workers=16):
    with ThreadPoolExecutor(max_workers=workers) as ex:
        return list(ex.map(fn, items))


# ---------------------------------------------------------------------------------------
# K2: emitted text


def k2_case(idx, obs, key):
    derive = DERIVE_DEFAULT if key == "default" else DERIVE_CLONE
    g = obs["gen_" + key]
    if g["outcome"] == "ok":
        items, closing = split_items(g["body"], derive)
        real = "(RGOk %s %s)" % (ct.clist([ct.cstr(i) for i in items]), ct.cstr(closing))
    elif g["outcome"] == "err":
        real = "RGErr"
    else:
        real = "(RGPanic %s)" % ct.cstr(g["site"])
    return "(%d%%N, %s, %s, %s)" % (idx, ct.ast(obs["ast"]), ct.cstr(derive), real)


def k2(observations, tag, keys=("default", "clone")):
    """compare Render(Gen(real AST)) with the real generate() text.  Returns (n_cases,
    disagreements) where a disagreement is (obs index, key, code)."""
    cases = []
    for o in observations:
        if o["ast"]["outcome"] != "ok":
            continue
        for key in keys:
            cases.append((o["index"], key))
    lookup = {o["index"]: o for o in observations}
    shards = shard(list(enumerate(cases)), 16)

    def run(sh_i):
        si, items = sh_i
        body = ["From XdrModel Require Import Check.", "Open Scope string_scope.",
                "Definition cases : list (N * ast * string * real_gen) := ["]
        body.append(";\n".join(k2_case(n, lookup[i], key) for n, (i, key) in items))
        body.append("].")
        body.append("Eval vm_compute in (k2_run cases).")
        out = coq_eval("k2_%s_%d" % (tag, si), "\n".join(body))
        return parse_pairs(out)

    res = par(run, list(enumerate(shards)))
    dis = []
    for r in res:
        for n, code in r:
            i, key = cases[n]
            dis.append((i, key, code))
    bad_header = [(o["index"], key) for o in observations for key in keys
                  if o["gen_" + key]["outcome"] == "ok" and not o["gen_" + key]["header_ok"]]
    return len(cases), dis, bad_header


def k2_show(obs, key, tag="show"):
    derive = DERIVE_DEFAULT if key == "default" else DERIVE_CLONE
    body = ["From XdrModel Require Import Check.", "Open Scope string_scope.",
            "Eval vm_compute in (k2_show %s %s)." % (ct.ast(obs["ast"]), ct.cstr(derive))]
    out = coq_eval("k2_show_" + tag, "\n".join(body))
    m = re.search(r'=\s*"(.*)"\s*:\s*string', out, re.S)
    return m.group(1).replace('""', '"') if m else out
