#!/bin/bash
# apply each seeded change in turn, run the checks named for it, undo it; results in /tmp/seedres_<id>.txt
run() { id=$1; shift; /verif/tools/seedtest.sh /tmp/seed_$id/patch.diff "$@" > /tmp/seedres_$id.txt 2>&1; echo "$id done: $(grep -c '^VIOLATION' /tmp/seedres_$id.txt) violation lines"; }
run C02 C02 C01
run C05 C05 C10
run C06 C06
run C08 C08
run C09 C09 C04
run C11 C11 C13
run C13 C13
run C03 C03 C01
run C04 C04
run C07 C07
run C10 C10 C05
run C12 C12
run C14 C14
run C15 C15
